//! C39: `hydro_std::quorum::{collect_quorum, collect_quorum_with_response}` and
//! `hydro_std::request_response::join_responses` under seeded schedules of the repository's
//! simulator. Oracle = a reference model on the whole response sequence (per phase when the
//! workload uses quiescence barriers).

use std::collections::{BTreeMap, BTreeSet};
use std::sync::Mutex;

use crate::harness::*;
use hydro_lang::live_collections::stream::{ExactlyOnce, NoOrder, Ordering, TotalOrder};
use hydro_lang::prelude::*;
use hydro_lang::sim::compiled::CompiledSim;
use hydro_lang::sim::{SimReceiver, SimSender};
use hydro_std::quorum::{collect_quorum, collect_quorum_with_response};
use hydro_std::request_response::join_responses;

#[cfg(stageleft_runtime)]
pub const META: PropMeta = PropMeta {
    id: "C39",
    quick_runs: 40_000,
    thorough_runs: 40_000_000,
    rule: "each run picks a program (collect_quorum / collect_quorum_with_response with (min,max) in {(1,1),(2,2),(2,3),(3,3),(1,3),(2,4)} over a totally ordered response stream, (2,3)/(2,2) over an unordered one; join_responses with acknowledged metadata, and with metadata and responses racing, judged by the tick in which the decision log shows each was released), draws a response sequence from the run seed (<=3 keys, at most max responses per key, Ok/Err mix, uniquely numbered payloads, split into 1-3 phases with or without quiescence barriers) and 4096 decision bytes for CompiledSim::fuzz_repro. Distinct = distinct hash of (program, workload, decision log); non-trivial = at least one key reached its quorum (or one response was joined) AND the schedule ran more than one tick.",
    time_unit: "scheduled ticks",
    real: &[
        "hydro_std::quorum::{collect_quorum, collect_quorum_with_response}, hydro_std::request_response::join_responses (sliced! bodies with use::state_null carry-over, anti_join / filter_not_in / join)",
        "hydro_lang simulator: compiled dylib, scheduler, batch/atomic hooks; CompiledSim::fuzz_repro",
    ],
    stubs: &["decision bytes expanded from the run seed", "seeded response sequences and phases", "reference quorum / join model"],
    assumptions: &[
        "the documented contract is respected by the workload: at most max responses per key; for join_responses one metadata element and at most one response per key, and a response is only sent after its metadata's atomic acknowledgement was observed",
        "with barriers (sim::quiesce) the oracle is per phase: a key is reported in exactly the phase in which its min-th success was sent; without barriers only the final sets are compared",
        "collect_quorum_with_response: demanded is that a reported key emits only genuine, distinct success responses of that key, at least min of them, all in the phase in which the quorum was reached, and nothing afterwards (how many of the later successes ride along is batching dependent and not asserted)",
    ],
    required_probes: &["quorum_reached", "quorum_not_reached_at_max", "error_passed_through", "quorum_state_carried_across_ticks", "join_matched", "join_unmatched_response_dropped", "barrier_phase_checked", "join_same_tick", "join_response_before_metadata"],
};

#[cfg(stageleft_runtime)]
type Tx<T, O> = SimSender<T, O, ExactlyOnce>;

#[cfg(stageleft_runtime)]
#[derive(Clone, Copy, Debug, PartialEq, Eq)]
struct QCfg {
    with_resp: bool,
    noorder: bool,
    min: usize,
    max: usize,
}
#[cfg(stageleft_runtime)]
const QCFGS: [QCfg; 15] = [
    QCfg { with_resp: false, noorder: false, min: 1, max: 1 },
    QCfg { with_resp: false, noorder: false, min: 2, max: 2 },
    QCfg { with_resp: false, noorder: false, min: 2, max: 3 },
    QCfg { with_resp: false, noorder: false, min: 3, max: 3 },
    QCfg { with_resp: false, noorder: false, min: 1, max: 3 },
    QCfg { with_resp: true, noorder: false, min: 1, max: 1 },
    QCfg { with_resp: true, noorder: false, min: 2, max: 2 },
    QCfg { with_resp: true, noorder: false, min: 2, max: 3 },
    QCfg { with_resp: true, noorder: false, min: 3, max: 3 },
    QCfg { with_resp: true, noorder: false, min: 1, max: 3 },
    QCfg { with_resp: false, noorder: true, min: 2, max: 3 },
    QCfg { with_resp: true, noorder: true, min: 2, max: 3 },
    QCfg { with_resp: true, noorder: true, min: 2, max: 2 },
    // max - min >= min: a key may collect min errors and still reach its quorum afterwards
    QCfg { with_resp: false, noorder: false, min: 2, max: 4 },
    QCfg { with_resp: true, noorder: false, min: 2, max: 4 },
];
#[cfg(stageleft_runtime)]
const QNAMES: [&str; 15] = [
    "quorum_1_1", "quorum_2_2", "quorum_2_3", "quorum_3_3", "quorum_1_3",
    "quorum_resp_1_1", "quorum_resp_2_2", "quorum_resp_2_3", "quorum_resp_3_3", "quorum_resp_1_3",
    "quorum_noorder_2_3", "quorum_resp_noorder_2_3", "quorum_resp_noorder_2_2",
    "quorum_2_4", "quorum_resp_2_4",
];

#[cfg(stageleft_runtime)]
/// (key, Ok(payload) | Err(payload)); payloads are unique per run
type Resp = (u8, Result<u32, u32>);

#[cfg(stageleft_runtime)]
enum QPorts {
    PlainT(Tx<(u8, Result<(), u32>), TotalOrder>, SimReceiver<u8, NoOrder, ExactlyOnce>, SimReceiver<(u8, u32), TotalOrder, ExactlyOnce>),
    PlainN(Tx<(u8, Result<(), u32>), NoOrder>, SimReceiver<u8, NoOrder, ExactlyOnce>, SimReceiver<(u8, u32), NoOrder, ExactlyOnce>),
    RespT(Tx<Resp, TotalOrder>, SimReceiver<(u8, u32), TotalOrder, ExactlyOnce>, SimReceiver<(u8, u32), TotalOrder, ExactlyOnce>),
    RespN(Tx<Resp, NoOrder>, SimReceiver<(u8, u32), NoOrder, ExactlyOnce>, SimReceiver<(u8, u32), NoOrder, ExactlyOnce>),
}
#[cfg(stageleft_runtime)]
struct QFlow {
    cfg: QCfg,
    compiled: CompiledSim,
    ports: QPorts,
}

#[cfg(stageleft_runtime)]
fn plain<O: Ordering>(node: &Process<'_, ()>, c: QCfg) -> (Tx<(u8, Result<(), u32>), O>, SimReceiver<u8, NoOrder, ExactlyOnce>, SimReceiver<(u8, u32), O, ExactlyOnce>) {
    let (tx, input) = node.sim_input::<(u8, Result<(), u32>), O, ExactlyOnce>();
    let (ok, err) = collect_quorum(input, c.min, c.max);
    (tx, ok.sim_output(), err.sim_output())
}
#[cfg(stageleft_runtime)]
fn with_resp<O: Ordering>(node: &Process<'_, ()>, c: QCfg) -> (Tx<Resp, O>, SimReceiver<(u8, u32), O, ExactlyOnce>, SimReceiver<(u8, u32), O, ExactlyOnce>) {
    let (tx, input) = node.sim_input::<Resp, O, ExactlyOnce>();
    let (ok, err) = collect_quorum_with_response(input, c.min, c.max);
    (tx, ok.sim_output(), err.sim_output())
}

#[cfg(stageleft_runtime)]
fn build_q(c: QCfg) -> QFlow {
    let mut flow = FlowBuilder::new();
    let node = flow.process::<()>();
    let ports = match (c.with_resp, c.noorder) {
        (false, false) => {
            let (a, b, d) = plain::<TotalOrder>(&node, c);
            QPorts::PlainT(a, b, d)
        }
        (false, true) => {
            let (a, b, d) = plain::<NoOrder>(&node, c);
            QPorts::PlainN(a, b, d)
        }
        (true, false) => {
            let (a, b, d) = with_resp::<TotalOrder>(&node, c);
            QPorts::RespT(a, b, d)
        }
        (true, true) => {
            let (a, b, d) = with_resp::<NoOrder>(&node, c);
            QPorts::RespN(a, b, d)
        }
    };
    let compiled = flow.sim().skip_consistency_assertions().compiled();
    QFlow { cfg: c, compiled, ports }
}

#[cfg(stageleft_runtime)]
#[derive(Default, Clone, Debug)]
struct PhaseObs {
    /// reported (key, payload) pairs (payload 0 for the plain helper)
    ok: Vec<(u8, u32)>,
    err: Vec<(u8, u32)>,
}

#[cfg(stageleft_runtime)]
struct QWork {
    phases: Vec<Vec<Resp>>,
    barriers: bool,
}

#[cfg(stageleft_runtime)]
fn q_workload(c: QCfg, run_seed: u64) -> QWork {
    let mut r = knob_rng(run_seed);
    let nkeys = 1 + below(&mut r, 3) as u8;
    let mut all: Vec<Resp> = vec![];
    let mut payload = 100u32;
    let ok_pct = 40 + below(&mut r, 55);
    for k in 0..nkeys {
        let n = below(&mut r, c.max as u64 + 1);
        for _ in 0..n {
            payload += 1;
            let ok = below(&mut r, 100) < ok_pct;
            all.push((k, if ok { Ok(payload) } else { Err(payload) }));
        }
    }
    // interleave keys: a seeded shuffle of the whole sequence (keeps <= max per key)
    for i in (1..all.len()).rev() {
        let j = below(&mut r, i as u64 + 1) as usize;
        all.swap(i, j);
    }
    let nph = 1 + below(&mut r, 3) as usize;
    let mut phases: Vec<Vec<Resp>> = vec![vec![]; nph];
    let mut p = 0;
    for x in all {
        while p + 1 < nph && below(&mut r, 3) == 0 {
            p += 1;
        }
        phases[p].push(x);
    }
    QWork { phases, barriers: below(&mut r, 3) != 0 }
}

#[cfg(stageleft_runtime)]
impl QFlow {
    fn run(&self, bytes: &[u8], w: &QWork) -> (Verdict, String, Vec<PhaseObs>) {
        let obs = Mutex::new(Vec::<PhaseObs>::new());
        let o = &obs;
        macro_rules! go {
            ($send:expr, $ok:expr, $err:expr) => {
                run_instance(&self.compiled, bytes, async || {
                    let n = w.phases.len();
                    for (i, ph) in w.phases.iter().enumerate() {
                        $send(ph);
                        if w.barriers || i + 1 == n {
                            if w.barriers {
                                hydro_lang::sim::quiesce().await;
                            }
                            let ok: Vec<(u8, u32)> = $ok().await;
                            let err: Vec<(u8, u32)> = $err().await;
                            o.lock().unwrap().push(PhaseObs { ok, err });
                        }
                    }
                })
            };
        }
        let strip = |ph: &Vec<Resp>| -> Vec<(u8, Result<(), u32>)> { ph.iter().map(|(k, r)| (*k, r.map(|_| ()))).collect() };
        let (v, log) = match &self.ports {
            QPorts::PlainT(tx, ok, err) => go!(
                |ph: &Vec<Resp>| tx.send_many(strip(ph)),
                async || ok.collect_sorted::<Vec<u8>>().await.into_iter().map(|k| (k, 0u32)).collect(),
                async || err.collect::<Vec<(u8, u32)>>().await
            ),
            QPorts::PlainN(tx, ok, err) => go!(
                |ph: &Vec<Resp>| tx.send_many_unordered(strip(ph)),
                async || ok.collect_sorted::<Vec<u8>>().await.into_iter().map(|k| (k, 0u32)).collect(),
                async || err.collect_sorted::<Vec<(u8, u32)>>().await
            ),
            QPorts::RespT(tx, ok, err) => go!(
                |ph: &Vec<Resp>| tx.send_many(ph.clone()),
                async || ok.collect::<Vec<(u8, u32)>>().await,
                async || err.collect::<Vec<(u8, u32)>>().await
            ),
            QPorts::RespN(tx, ok, err) => go!(
                |ph: &Vec<Resp>| tx.send_many_unordered(ph.clone()),
                async || ok.collect_sorted::<Vec<(u8, u32)>>().await,
                async || err.collect_sorted::<Vec<(u8, u32)>>().await
            ),
        };
        (v, log, obs.into_inner().unwrap_or_else(|e| e.into_inner()))
    }
}

#[cfg(stageleft_runtime)]
fn gate(name: &str, v: &Verdict, out: &mut RunOut) -> bool {
    match v {
        Verdict::Ok => true,
        Verdict::Discarded => {
            out.harness_error = Some(format!("{name}: instance discarded"));
            false
        }
        Verdict::Panic(msg, loc) => {
            if msg.starts_with(STEP_CAP_MSG) {
                out.fail(format!("livelock/{name}"), msg.clone());
            } else if panic_in_sut(loc) {
                let file = loc.rsplit('/').next().unwrap_or(loc).split(':').next().unwrap_or("").to_string();
                out.fail(format!("panic/{name}/{file}"), format!("panic at {loc}: {msg}"));
            } else {
                out.harness_error = Some(format!("{name}: harness-side panic at {loc}: {msg}"));
            }
            false
        }
    }
}

#[cfg(stageleft_runtime)]
fn run_q(name: &'static str, f: &QFlow, inp: &RunIn<'_>) -> RunOut {
    let c = f.cfg;
    let w = q_workload(c, inp.run_seed);
    let (v, log, phases) = f.run(inp.bytes, &w);
    let mut out = RunOut::default();
    let pl = parse_log(&log);
    out.sim_time = pl.ticks.len() as u64;
    out.sched_hash = hash_str(hash_str(FNV0, &log), &format!("{:?}", w.phases));
    out.log_hash = hash_str(out.sched_hash, &format!("{phases:?}{v:?}"));
    if inp.verbose {
        out.text.push(format!("{name}: min={} max={} barriers={} phases={:?}", c.min, c.max, w.barriers, w.phases));
        out.text.push(format!("verdict: {}", v.text()));
        for (i, p) in phases.iter().enumerate() {
            out.text.push(format!("observed after phase {i}: reported {:?} errors {:?}", p.ok, p.err));
        }
        out.text.extend(log.lines().filter(|l| !l.trim().is_empty()).map(|l| format!("  {l}")));
    }
    if !gate(name, &v, &mut out) {
        return out;
    }
    // reference model
    let mut succ: BTreeMap<u8, Vec<u32>> = BTreeMap::new();
    let mut reported: BTreeSet<u8> = BTreeSet::new();
    let mut emitted: BTreeSet<(u8, u32)> = BTreeSet::new();
    let mut sent_groups: Vec<Vec<Resp>> = vec![];
    if w.barriers {
        sent_groups = w.phases.clone();
    } else {
        sent_groups.push(w.phases.iter().flatten().cloned().collect());
    }
    if phases.len() != sent_groups.len() {
        out.harness_error = Some(format!("{} observation points for {} groups", phases.len(), sent_groups.len()));
        return out;
    }
    let mut any_quorum = false;
    for (i, (grp, ob)) in sent_groups.iter().zip(&phases).enumerate() {
        let mut errs_sent: Vec<(u8, u32)> = vec![];
        for (k, r) in grp {
            match r {
                Ok(p) => succ.entry(*k).or_default().push(*p),
                Err(e) => errs_sent.push((*k, *e)),
            }
        }
        // every error response is passed through exactly once (in order for ordered inputs)
        let mut es = errs_sent.clone();
        let mut eo = ob.err.clone();
        if c.noorder {
            es.sort();
            eo.sort();
        }
        if es != eo {
            out.fail(format!("errors_not_passed_through/{name}"), format!("phase {i}: errors sent {errs_sent:?}, errors passed through {:?}", ob.err));
            return out;
        }
        if !errs_sent.is_empty() {
            out.probe("error_passed_through");
        }
        // which keys must be reported at this observation point
        let due: BTreeSet<u8> = succ.iter().filter(|(k, v)| v.len() >= c.min && !reported.contains(k)).map(|(k, _)| *k).collect();
        let got_keys: BTreeSet<u8> = ob.ok.iter().map(|x| x.0).collect();
        if let Some(k) = got_keys.iter().find(|k| reported.contains(k)) {
            out.fail(format!("quorum_reported_twice/{name}"), format!("phase {i}: key {k} was already reported in an earlier phase; now {:?}", ob.ok));
            return out;
        }
        if let Some(k) = got_keys.difference(&due).next() {
            out.fail(format!("quorum_reported_without_min/{name}"), format!("phase {i}: key {k} reported with {:?} successes (< min {}); reported {:?}", succ.get(k).map(|v| v.len()).unwrap_or(0), c.min, ob.ok));
            return out;
        }
        if let Some(k) = due.difference(&got_keys).next() {
            out.fail(format!("quorum_not_reported/{name}"), format!("phase {i}: key {k} has {} successes (>= min {}) but was not reported; reported {:?}", succ[k].len(), c.min, ob.ok));
            return out;
        }
        if c.with_resp {
            for k in &due {
                let ps: Vec<u32> = ob.ok.iter().filter(|x| x.0 == *k).map(|x| x.1).collect();
                let set: BTreeSet<u32> = ps.iter().copied().collect();
                if set.len() != ps.len() || ps.iter().any(|p| emitted.contains(&(*k, *p))) {
                    out.fail(format!("quorum_response_emitted_twice/{name}"), format!("phase {i}: key {k} emitted {ps:?}"));
                    return out;
                }
                if let Some(p) = ps.iter().find(|p| !succ[k].contains(p)) {
                    out.fail(format!("quorum_emitted_foreign_response/{name}"), format!("phase {i}: key {k} emitted payload {p} which is not one of its successes {:?}", succ[k]));
                    return out;
                }
                if ps.len() < c.min || (c.min == c.max && ps.len() != c.min) {
                    out.fail(format!("quorum_response_count/{name}"), format!("phase {i}: key {k} reached its quorum (min {}, max {}) but emitted {} responses {ps:?}", c.min, c.max, ps.len()));
                    return out;
                }
                for p in ps {
                    emitted.insert((*k, p));
                }
            }
        } else if ob.ok.len() != got_keys.len() {
            out.fail(format!("quorum_reported_twice/{name}"), format!("phase {i}: reported {:?}", ob.ok));
            return out;
        }
        if !due.is_empty() {
            any_quorum = true;
            out.probe("quorum_reached");
        }
        reported.extend(due);
        if w.barriers && i > 0 {
            out.probe("barrier_phase_checked");
        }
    }
    // keys that used up max responses without reaching min
    let mut total: BTreeMap<u8, usize> = BTreeMap::new();
    for (k, _) in w.phases.iter().flatten() {
        *total.entry(*k).or_default() += 1;
    }
    if total.iter().any(|(k, n)| *n >= c.max && !reported.contains(k)) {
        out.probe("quorum_not_reached_at_max");
    }
    if pl.ticks.len() > 1 && any_quorum {
        out.probe("quorum_state_carried_across_ticks");
    }
    out.nontrivial = any_quorum && pl.ticks.len() > 1;
    out
}

// ---------------------------------------------------------------------------------------------
// join_responses

#[cfg(stageleft_runtime)]
struct JFlow {
    compiled: CompiledSim,
    meta_tx: Tx<(u8, u32), TotalOrder>,
    resp_tx: Tx<(u8, u32), TotalOrder>,
    ack_rx: SimReceiver<(u8, u32), TotalOrder, ExactlyOnce>,
    joined_rx: SimReceiver<(u8, (u32, u32)), NoOrder, ExactlyOnce>,
}

#[cfg(stageleft_runtime)]
fn build_j() -> JFlow {
    let mut flow = FlowBuilder::new();
    let process = flow.process::<()>();
    let (resp_tx, responses) = process.sim_input::<(u8, u32), TotalOrder, ExactlyOnce>();
    let (meta_tx, metadata_input) = process.sim_input::<(u8, u32), TotalOrder, ExactlyOnce>();
    let metadata_processing = metadata_input.atomic();
    let metadata_ack = metadata_processing.clone().end_atomic();
    let metadata = metadata_processing.batch_atomic(&process.tick(), nondet!(/** c39 */)).weaken_ordering();
    let joined = join_responses(responses.weaken_ordering(), metadata);
    let ack_rx = metadata_ack.sim_output();
    let joined_rx = joined.sim_output();
    let compiled = flow.sim().skip_consistency_assertions().compiled();
    JFlow { compiled, meta_tx, resp_tx, ack_rx, joined_rx }
}

#[cfg(stageleft_runtime)]
struct JRound {
    metas: Vec<(u8, u32)>,
    resps: Vec<(u8, u32)>,
}

#[cfg(stageleft_runtime)]
fn j_workload(run_seed: u64) -> (Vec<JRound>, bool) {
    let mut r = knob_rng(run_seed);
    let rounds = 1 + below(&mut r, 3) as usize;
    let mut next_key = 0u8;
    let mut have_meta: Vec<u8> = vec![];
    let mut responded: BTreeSet<u8> = BTreeSet::new();
    let mut payload = 500u32;
    let mut out = vec![];
    for _ in 0..rounds {
        let mut metas = vec![];
        for _ in 0..below(&mut r, 3) {
            payload += 1;
            metas.push((next_key, payload));
            have_meta.push(next_key);
            next_key += 1;
        }
        let mut resps = vec![];
        for k in have_meta.clone() {
            if !responded.contains(&k) && below(&mut r, 3) != 0 {
                payload += 1;
                resps.push((k, payload));
                responded.insert(k);
            }
        }
        // responses whose request never registered metadata (keys 200..): must be dropped
        for _ in 0..below(&mut r, 2) {
            payload += 1;
            let k = 200 + (payload % 40) as u8;
            if !responded.contains(&k) {
                resps.push((k, payload));
                responded.insert(k);
            }
        }
        for i in (1..resps.len()).rev() {
            let j = below(&mut r, i as u64 + 1) as usize;
            resps.swap(i, j);
        }
        out.push(JRound { metas, resps });
    }
    (out, below(&mut r, 2) == 0)
}

#[cfg(stageleft_runtime)]
fn run_j(f: &JFlow, inp: &RunIn<'_>) -> RunOut {
    let name = "join_responses";
    let (rounds, barriers) = j_workload(inp.run_seed);
    let joined = Mutex::new(Vec::<Vec<(u8, (u32, u32))>>::new());
    let acks = Mutex::new(Vec::<(u8, u32)>::new());
    let (jr, ar) = (&joined, &acks);
    let rr = &rounds;
    let (v, log) = run_instance(&f.compiled, inp.bytes, async || {
        let n = rr.len();
        for (i, rd) in rr.iter().enumerate() {
            f.meta_tx.send_many(rd.metas.clone());
            for _ in 0..rd.metas.len() {
                let a = f.ack_rx.next().await;
                ar.lock().unwrap().push(a);
            }
            f.resp_tx.send_many(rd.resps.clone());
            if barriers || i + 1 == n {
                if barriers {
                    hydro_lang::sim::quiesce().await;
                }
                let j: Vec<(u8, (u32, u32))> = f.joined_rx.collect_sorted().await;
                jr.lock().unwrap().push(j);
            }
        }
    });
    let joined = joined.into_inner().unwrap_or_else(|e| e.into_inner());
    let acks = acks.into_inner().unwrap_or_else(|e| e.into_inner());
    let mut out = RunOut::default();
    let pl = parse_log(&log);
    out.sim_time = pl.ticks.len() as u64;
    out.sched_hash = hash_str(hash_str(FNV0, &log), &format!("{:?}", rounds.iter().map(|r| (&r.metas, &r.resps)).collect::<Vec<_>>()));
    out.log_hash = hash_str(out.sched_hash, &format!("{joined:?}{acks:?}{v:?}"));
    if inp.verbose {
        for (i, rd) in rounds.iter().enumerate() {
            out.text.push(format!("round {i}: metadata {:?} responses {:?}", rd.metas, rd.resps));
        }
        out.text.push(format!("barriers={barriers} verdict: {}", v.text()));
        out.text.push(format!("acks {acks:?}"));
        out.text.push(format!("joined per observation point {joined:?}"));
        out.text.extend(log.lines().filter(|l| !l.trim().is_empty()).map(|l| format!("  {l}")));
    }
    if let Verdict::Panic(msg, _) = &v {
        if msg.starts_with("Stream ended (simulation quiescent)") {
            out.fail(format!("metadata_ack_never_released/{name}"), format!("the atomic acknowledgement of a sent metadata element never arrived: {msg}"));
            return out;
        }
    }
    if !gate(name, &v, &mut out) {
        return out;
    }
    let sent_metas: Vec<(u8, u32)> = rounds.iter().flat_map(|r| r.metas.iter().copied()).collect();
    if acks != sent_metas {
        out.fail(format!("metadata_acks_wrong/{name}"), format!("metadata sent {sent_metas:?}, acknowledgements {acks:?}"));
        return out;
    }
    let meta: BTreeMap<u8, u32> = sent_metas.iter().copied().collect();
    let mut expect_groups: Vec<Vec<(u8, (u32, u32))>> = vec![];
    let mut cur = vec![];
    let n = rounds.len();
    let mut dropped = false;
    for (i, rd) in rounds.iter().enumerate() {
        for (k, p) in &rd.resps {
            match meta.get(k) {
                Some(m) => cur.push((*k, (*m, *p))),
                None => dropped = true,
            }
        }
        if barriers || i + 1 == n {
            cur.sort();
            expect_groups.push(std::mem::take(&mut cur));
        }
    }
    if expect_groups != joined {
        out.fail(format!("join_mismatch/{name}"), format!("expected joined per observation point {expect_groups:?}, observed {joined:?}"));
        return out;
    }
    let matched = expect_groups.iter().any(|g| !g.is_empty());
    if matched {
        out.probe("join_matched");
    }
    if dropped {
        out.probe("join_unmatched_response_dropped");
    }
    if barriers && n > 1 {
        out.probe("barrier_phase_checked");
    }
    out.nontrivial = matched && pl.ticks.len() > 1;
    out
}

/// Metadata and responses are sent without waiting for the acknowledgement, so a response may be
/// released into an earlier tick than, the same tick as, or a later tick than its metadata. The
/// decision log tells which: per the documented contract ("the metadata must be generated in the
/// same or a previous tick than the response") exactly the responses released in the same or a
/// later tick must be joined.
#[cfg(stageleft_runtime)]
fn run_j_racing(f: &JFlow, inp: &RunIn<'_>) -> RunOut {
    let name = "join_responses_racing";
    let mut r = knob_rng(inp.run_seed);
    let nkeys = 1 + below(&mut r, 4) as u8;
    // metadata values < 1000, response payloads >= 1000 (told apart in the log)
    let metas: Vec<(u8, u32)> = (0..nkeys).map(|k| (k, 500 + k as u32)).collect();
    let mut resps: Vec<(u8, u32)> = (0..nkeys).filter(|_| below(&mut r, 5) != 0).map(|k| (k, 1000 + k as u32)).collect();
    for i in (1..resps.len()).rev() {
        let j = below(&mut r, i as u64 + 1) as usize;
        resps.swap(i, j);
    }
    let joined = Mutex::new(Vec::<(u8, (u32, u32))>::new());
    let jr = &joined;
    let (mr, rr) = (&metas, &resps);
    let (v, log) = run_instance(&f.compiled, inp.bytes, async || {
        f.meta_tx.send_many(mr.clone());
        f.resp_tx.send_many(rr.clone());
        hydro_lang::sim::quiesce().await;
        let _acks: Vec<(u8, u32)> = f.ack_rx.collect().await;
        *jr.lock().unwrap() = f.joined_rx.collect_sorted().await;
    });
    let joined = joined.into_inner().unwrap_or_else(|e| e.into_inner());
    let mut out = RunOut::default();
    let pl = parse_log(&log);
    out.sim_time = pl.ticks.len() as u64;
    out.sched_hash = hash_str(hash_str(FNV0, &log), &format!("{metas:?}{resps:?}"));
    out.log_hash = hash_str(out.sched_hash, &format!("{joined:?}{v:?}"));
    if inp.verbose {
        out.text.push(format!("{name}: metadata {metas:?} responses {resps:?} (no ack awaited)"));
        out.text.push(format!("verdict: {} joined {joined:?}", v.text()));
        out.text.extend(log.lines().filter(|l| !l.trim().is_empty()).map(|l| format!("  {l}")));
    }
    if !gate(name, &v, &mut out) {
        return out;
    }
    // in which tick was each pair released?
    let mut meta_tick: BTreeMap<u8, usize> = BTreeMap::new();
    let mut resp_tick: BTreeMap<u8, usize> = BTreeMap::new();
    for (t, rels) in pl.ticks.iter().enumerate() {
        for rel in rels {
            let mut rest = rel.note.as_str();
            while let Some(p) = rest.find('(') {
                rest = &rest[p + 1..];
                let Some(q) = rest.find(')') else { break };
                let mut it = rest[..q].split(',').map(|x| x.trim().parse::<u32>());
                if let (Some(Ok(k)), Some(Ok(val))) = (it.next(), it.next()) {
                    if val < 1000 { meta_tick.insert(k as u8, t); } else { resp_tick.insert(k as u8, t); }
                }
                rest = &rest[q..];
            }
        }
    }
    if metas.iter().any(|(k, _)| !meta_tick.contains_key(k)) || resps.iter().any(|(k, _)| !resp_tick.contains_key(k)) {
        // the log did not show every release (should not happen with <= 4 items): not judged
        out.discarded = true;
        return out;
    }
    let mut expect: Vec<(u8, (u32, u32))> = resps.iter().filter(|(k, _)| resp_tick[k] >= meta_tick[k]).map(|(k, p)| (*k, (500 + *k as u32, *p))).collect();
    expect.sort();
    if expect != joined {
        out.fail(format!("join_mismatch/{name}"), format!("metadata released in ticks {meta_tick:?}, responses in ticks {resp_tick:?}: expected joined {expect:?}, observed {joined:?}"));
        return out;
    }
    if resps.iter().any(|(k, _)| resp_tick[k] == meta_tick[k]) {
        out.probe("join_same_tick");
    }
    if resps.iter().any(|(k, _)| resp_tick[k] < meta_tick[k]) {
        out.probe("join_response_before_metadata");
    }
    out.nontrivial = !expect.is_empty() && pl.ticks.len() > 1;
    out
}

#[cfg(stageleft_runtime)]
#[test]
fn e2e_c39() {
    let Some(cfg) = cfg_for("C39") else { return };
    let qflows: Vec<Lazy<QFlow>> = QCFGS.iter().map(|c| { let c = *c; Lazy::new(move || build_q(c)) }).collect();
    let jflow: Lazy<JFlow> = Lazy::new(build_j);
    let jflow2: Lazy<JFlow> = Lazy::new(build_j);
    let mut scenarios: Vec<Scenario<'_>> = qflows
        .iter()
        .zip(QNAMES)
        .map(|(f, name)| Scenario { name, weight: 1, run: Box::new(move |inp: &RunIn<'_>| run_q(name, f.get(), inp)) })
        .collect();
    let jf = &jflow;
    scenarios.push(Scenario { name: "join_responses", weight: 2, run: Box::new(move |inp: &RunIn<'_>| run_j(jf.get(), inp)) });
    let jf2 = &jflow2;
    scenarios.push(Scenario { name: "join_responses_racing", weight: 2, run: Box::new(move |inp: &RunIn<'_>| run_j_racing(jf2.get(), inp)) });
    drive(&cfg, &META, scenarios, None);
}
