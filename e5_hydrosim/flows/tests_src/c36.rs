//! C36 end-to-end leg: the real scheduler (`compiled.rs::{step, run_hooks}`) + real hooks inside
//! the compiled dylib, driven by seeded decision bytes; oracle on the per-tick records (the
//! output order *is* the release order) and on the scheduler's decision log.

use crate::harness::*;

use crate::corpus::*;
use crate::oracle::*;

#[cfg(stageleft_runtime)]
pub const META: PropMeta = PropMeta {
    id: "C36",
    quick_runs: 60_000,
    thorough_runs: 40_000_000,
    rule: "end to end: each run picks a corpus slice program (batch of a total/unordered/keyed stream, batch+snapshot+state, batch+keyed snapshot, two batches, top-level assume_ordering), draws a workload from the run seed (<=6 uniquely numbered items per input over <=3 keys, split into send steps with awaits in between) and 4096 decision bytes, and runs one instance of the compiled simulator through CompiledSim::fuzz_repro. Distinct = distinct hash of (program, decision log); non-trivial = at least one item flowed AND the realised schedule differs from the all-at-once schedule (more than one tick/observation, or an await was served before everything was sent).",
    time_unit: "scheduled ticks + observations",
    real: &[
        "hydro_lang::sim::compiled::{CompiledSim::fuzz_repro, CompiledSimInstance::run_with_scheduler_and_logger, LaunchedSim::step, run_hooks, SimReceiver/SimSender, quiescence handshake}",
        "hydro_lang::sim::{builder, graph, flow}: compilation of the flow into the simulator dylib (cargo, offline)",
        "hydro_lang::sim::runtime hooks inside the dylib; sliced!/batch/snapshot/state expansion; dfir_rs runtime",
        "bolero byte driver (decision bytes -> choices)",
    ],
    stubs: &["decision bytes expanded from the run seed", "test body: seeded send/await workload", "record/log oracles"],
    assumptions: &[
        "fuzz_repro consumes at most the first 4096 decision bytes (bolero default max_len); afterwards the byte driver answers zeros, which is still a legal schedule",
        "the body awaits a record only while an item it sent is still unreleased, so 'Stream ended (simulation quiescent)' there means a pending item was never released",
        "log lines with more than 8 items are truncated by the simulator; workloads stay below that",
    ],
    required_probes: &["e2e_multi_tick_schedule", "e2e_empty_batch_tick", "e2e_snapshot_skipped_version", "e2e_await_served_mid_workload", "e2e_observation"],
};

#[cfg(stageleft_runtime)]
pub fn run_one(flow: &Flow, inp: &RunIn<'_>) -> RunOut {
    let kind = flow.kind;
    let steps = workload(kind, inp.run_seed);
    let obs = flow.run(inp.bytes, &steps);
    let mut out = RunOut::default();
    if verdict_gate(kind.name(), &obs.verdict, &mut out) {
        check_records(kind, &steps, &obs, &mut out);
        let pl = check_log(kind, &obs, &mut out);
        out.sim_time = (pl.ticks.len() + pl.observations.len()) as u64;
        if pl.ticks.len() > 1 {
            out.probe("e2e_multi_tick_schedule");
        }
        if !pl.observations.is_empty() {
            out.probe("e2e_observation");
        }
        if obs.recs.iter().any(|r| r.batch.is_empty() && r.batch2.is_empty()) && kind.has_tick() {
            out.probe("e2e_empty_batch_tick");
        }
        if obs.log.contains("skipping earlier states") {
            out.probe("e2e_snapshot_skipped_version");
        }
        if obs.awaited > 0 {
            out.probe("e2e_await_served_mid_workload");
        }
        let items: usize = obs.recs.iter().map(|r| r.batch.len() + r.batch2.len()).sum();
        out.nontrivial = items > 0 && (obs.recs.len() > 1 || obs.awaited > 0);
    }
    out.log_hash = obs_hash(&obs);
    out.sched_hash = hash_str(FNV0, &obs.log);
    if inp.verbose {
        out.text = describe(&steps, &obs);
    }
    out
}

#[cfg(stageleft_runtime)]
#[test]
fn e2e_c36() {
    let Some(cfg) = cfg_for("C36") else { return };
    let flows: Vec<LazyFlow> = FlowKind::ALL.iter().map(|k| LazyFlow::new(*k)).collect();
    let scenarios = flows.iter().map(|f| Scenario { name: f.kind.name(), weight: 1, run: Box::new(move |inp: &RunIn<'_>| run_one(f.get(), inp)) }).collect();
    drive(&cfg, &META, scenarios, None);
}
