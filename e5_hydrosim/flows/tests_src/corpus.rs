//! Corpus of small slice programs ("identity through a tick"): every slice folds what it was
//! handed in one tick into a single record and emits it, so the (totally ordered) output stream is
//! the sequence of per-tick records and the output *is* the release schedule.
//!
//! Used by C36 (end-to-end leg), C38, C31 and C37 (end-to-end leg).

use std::collections::BTreeMap;
use std::sync::Mutex;

use crate::harness::*;
use hydro_lang::live_collections::stream::{ExactlyOnce, NoOrder, TotalOrder};
use hydro_lang::prelude::*;
use hydro_lang::sim::compiled::CompiledSim;
use hydro_lang::sim::{SimReceiver, SimSender};

#[cfg(stageleft_runtime)]
pub type Kv = (u8, i32);

#[cfg(stageleft_runtime)]
/// What one tick handed to the slice, normalised across flows.
#[derive(Clone, Debug, Default, PartialEq, Eq, PartialOrd, Ord)]
pub struct Rec {
    /// items of the batch hook(s), in the order the slice saw them (flows over `NoOrder`/keyed
    /// inputs sort, see `FlowKind::batch_ordered`)
    pub batch: Vec<Kv>,
    /// second batch hook (flow `two_batches`)
    pub batch2: Vec<Kv>,
    /// observed snapshot: `(key, value)`; unkeyed snapshots use key 0; empty = none in this flow
    pub snap: Vec<(u8, i64)>,
    /// slice-local state *before* this slice's update (flows with `use::state`)
    pub state_in: i64,
    /// slice-local state after this slice's update
    pub state_out: i64,
}

#[cfg(stageleft_runtime)]
#[derive(Clone, Debug)]
pub enum Step {
    /// send items to input port 0 / 1
    Send(usize, Vec<Kv>),
    /// wait for the next record (only taken when the flow *must* still produce one)
    Await,
}

#[cfg(stageleft_runtime)]
#[derive(Clone, Copy, Debug, PartialEq, Eq, PartialOrd, Ord)]
pub enum FlowKind {
    /// batch of a totally ordered stream
    Total,
    /// batch of an unordered stream
    NoOrd,
    /// batch of a keyed, per-key ordered stream
    KeyedTotal,
    /// batch of a keyed unordered stream
    KeyedNoOrd,
    /// batch of stream 0 + snapshot of `count()` of stream 1 + `use::state` counter
    BatchSnapState,
    /// batch of stream 0 + snapshot of a keyed `count` of stream 1
    BatchKeyedSnap,
    /// two batch hooks in one slice
    TwoBatches,
    /// top-level `assume_ordering` of an unordered stream (an observation, no tick)
    TopOrder,
    /// two slices whose ticks are ready at once: slice A batches stream 1 and passes it on, slice B
    /// batches stream 0 and snapshots a `count()` of slice A's output
    TwoSlices,
    /// batch of stream 0 + snapshot of a top-level commutative fold (count) of the *unordered*
    /// stream 1: the snapshot is fed by a `TopLevelFoldHook` + `PassthroughSingletonHook` pair.
    /// (this program exposed finding #1, see findings/NOTES.txt: before commit 1bedb80806a it
    /// crashed the simulator whenever its tick was scheduled by the batch alone)
    BatchFoldSnap,
}
#[cfg(stageleft_runtime)]
impl FlowKind {
    pub const ALL: [FlowKind; 10] = [
        FlowKind::Total,
        FlowKind::NoOrd,
        FlowKind::KeyedTotal,
        FlowKind::KeyedNoOrd,
        FlowKind::BatchSnapState,
        FlowKind::BatchKeyedSnap,
        FlowKind::TwoBatches,
        FlowKind::TopOrder,
        FlowKind::TwoSlices,
        FlowKind::BatchFoldSnap,
    ];
    pub fn name(self) -> &'static str {
        match self {
            FlowKind::Total => "total",
            FlowKind::NoOrd => "noorder",
            FlowKind::KeyedTotal => "keyed_total",
            FlowKind::KeyedNoOrd => "keyed_noorder",
            FlowKind::BatchSnapState => "batch_snapshot_state",
            FlowKind::BatchKeyedSnap => "batch_keyed_snapshot",
            FlowKind::TwoBatches => "two_batches",
            FlowKind::TopOrder => "top_order",
            FlowKind::TwoSlices => "two_slices",
            FlowKind::BatchFoldSnap => "batch_fold_snapshot",
        }
    }
    pub fn inputs(self) -> usize {
        match self {
            FlowKind::BatchSnapState | FlowKind::BatchKeyedSnap | FlowKind::TwoBatches | FlowKind::BatchFoldSnap | FlowKind::TwoSlices => 2,
            _ => 1,
        }
    }
    pub fn keyed(self, port: usize) -> bool {
        match self {
            FlowKind::KeyedTotal | FlowKind::KeyedNoOrd => true,
            FlowKind::BatchKeyedSnap => port == 1,
            _ => false,
        }
    }
    /// the batch of port 0 is promised in order (per key)
    pub fn batch_ordered(self) -> bool {
        matches!(self, FlowKind::Total | FlowKind::KeyedTotal | FlowKind::BatchSnapState | FlowKind::BatchKeyedSnap | FlowKind::TwoBatches | FlowKind::BatchFoldSnap | FlowKind::TwoSlices)
    }
    /// port 1 feeds a snapshot (not a batch)
    pub fn port1_is_snapshot(self) -> bool {
        matches!(self, FlowKind::BatchSnapState | FlowKind::BatchKeyedSnap | FlowKind::BatchFoldSnap | FlowKind::TwoSlices)
    }
    pub fn has_tick(self) -> bool {
        self != FlowKind::TopOrder
    }
}

#[cfg(stageleft_runtime)]
type Tx<T, O> = SimSender<T, O, ExactlyOnce>;
#[cfg(stageleft_runtime)]
type Rx<T> = SimReceiver<T, TotalOrder, ExactlyOnce>;

#[cfg(stageleft_runtime)]
enum Ports {
    Total(Tx<i32, TotalOrder>, Rx<Vec<i32>>),
    NoOrd(Tx<i32, NoOrder>, Rx<Vec<i32>>),
    KeyedTotal(Tx<Kv, TotalOrder>, Rx<Vec<(u8, Vec<i32>)>>),
    KeyedNoOrd(Tx<Kv, NoOrder>, Rx<Vec<(u8, Vec<i32>)>>),
    BatchSnapState(Tx<i32, TotalOrder>, Tx<i32, TotalOrder>, Rx<(Vec<i32>, usize, (i64, i64))>),
    BatchKeyedSnap(Tx<i32, TotalOrder>, Tx<Kv, TotalOrder>, Rx<(Vec<i32>, Vec<(u8, usize)>)>),
    TwoBatches(Tx<i32, TotalOrder>, Tx<i32, TotalOrder>, Rx<(Vec<i32>, Vec<i32>)>),
    TopOrder(Tx<i32, NoOrder>, Rx<i32>),
    BatchFoldSnap(Tx<i32, TotalOrder>, Tx<i32, NoOrder>, Rx<(Vec<i32>, usize)>),
    TwoSlices(Tx<i32, TotalOrder>, Tx<i32, TotalOrder>, Rx<(Vec<i32>, usize)>),
}

#[cfg(stageleft_runtime)]
pub struct Flow {
    pub kind: FlowKind,
    pub compiled: CompiledSim,
    ports: Ports,
}

#[cfg(stageleft_runtime)]
pub fn build(kind: FlowKind) -> Flow {
    let mut flow = FlowBuilder::new();
    let node = flow.process::<()>();
    let ports = match kind {
        FlowKind::Total => {
            let (tx, input) = node.sim_input::<i32, TotalOrder, ExactlyOnce>();
            let rx = sliced! {
                let b = use::batch(input, nondet!(/** corpus: the batch boundary is what is explored */));
                b.fold(q!(|| Vec::new()), q!(|acc: &mut Vec<i32>, v| acc.push(v))).into_stream()
            }
            .sim_output();
            Ports::Total(tx, rx)
        }
        FlowKind::NoOrd => {
            let (tx, input) = node.sim_input::<i32, NoOrder, ExactlyOnce>();
            let rx = sliced! {
                let b = use::batch(input, nondet!(/** corpus */));
                b.fold(
                    q!(|| Vec::new()),
                    q!(|acc: &mut Vec<i32>, v| {
                        acc.push(v);
                        acc.sort();
                    }, commutative = manual_proof!(/** kept sorted: a multiset */)),
                )
                .into_stream()
            }
            .sim_output();
            Ports::NoOrd(tx, rx)
        }
        FlowKind::KeyedTotal => {
            let (tx, input) = node.sim_input::<Kv, TotalOrder, ExactlyOnce>();
            let rx = sliced! {
                let b = use::batch(input.into_keyed(), nondet!(/** corpus */));
                b.fold(q!(|| Vec::new()), q!(|acc: &mut Vec<i32>, v| acc.push(v)))
                    .entries()
                    .fold(
                        q!(|| Vec::new()),
                        q!(|acc: &mut Vec<(u8, Vec<i32>)>, kv| {
                            acc.push(kv);
                            acc.sort();
                        }, commutative = manual_proof!(/** kept sorted by key */)),
                    )
                    .into_stream()
            }
            .sim_output();
            Ports::KeyedTotal(tx, rx)
        }
        FlowKind::KeyedNoOrd => {
            let (tx, input) = node.sim_input::<Kv, NoOrder, ExactlyOnce>();
            let rx = sliced! {
                let b = use::batch(input.into_keyed(), nondet!(/** corpus */));
                b.fold(
                    q!(|| Vec::new()),
                    q!(|acc: &mut Vec<i32>, v| {
                        acc.push(v);
                        acc.sort();
                    }, commutative = manual_proof!(/** kept sorted */)),
                )
                .entries()
                .fold(
                    q!(|| Vec::new()),
                    q!(|acc: &mut Vec<(u8, Vec<i32>)>, kv| {
                        acc.push(kv);
                        acc.sort();
                    }, commutative = manual_proof!(/** kept sorted by key */)),
                )
                .into_stream()
            }
            .sim_output();
            Ports::KeyedNoOrd(tx, rx)
        }
        FlowKind::BatchSnapState => {
            let (tx0, in0) = node.sim_input::<i32, TotalOrder, ExactlyOnce>();
            let (tx1, in1) = node.sim_input::<i32, TotalOrder, ExactlyOnce>();
            let counted = in1.count();
            let rx = sliced! {
                let b = use::batch(in0, nondet!(/** corpus */));
                let c = use::snapshot(counted, nondet!(/** corpus */));
                let mut total = use::state(|l| l.singleton(q!(0i64)));

                let batch_vec = b.fold(q!(|| Vec::new()), q!(|acc: &mut Vec<i32>, v| acc.push(v)));
                let before = total.clone();
                let after = before.clone().zip(batch_vec.clone()).map(q!(|(t, v)| t + v.len() as i64));
                total = after.clone();
                batch_vec.zip(c).zip(before.zip(after)).map(q!(|((v, c), st)| (v, c, st))).into_stream()
            }
            .sim_output();
            Ports::BatchSnapState(tx0, tx1, rx)
        }
        FlowKind::BatchKeyedSnap => {
            let (tx0, in0) = node.sim_input::<i32, TotalOrder, ExactlyOnce>();
            let (tx1, in1) = node.sim_input::<Kv, TotalOrder, ExactlyOnce>();
            let counted = in1.into_keyed().fold(q!(|| 0usize), q!(|acc: &mut usize, _v| *acc += 1));
            let rx = sliced! {
                let b = use::batch(in0, nondet!(/** corpus */));
                let c = use::snapshot(counted, nondet!(/** corpus */));
                let batch_vec = b.fold(q!(|| Vec::new()), q!(|acc: &mut Vec<i32>, v| acc.push(v)));
                let snap_vec = c.entries().fold(
                    q!(|| Vec::new()),
                    q!(|acc: &mut Vec<(u8, usize)>, kv| {
                        acc.push(kv);
                        acc.sort();
                    }, commutative = manual_proof!(/** kept sorted by key */)),
                );
                batch_vec.zip(snap_vec).into_stream()
            }
            .sim_output();
            Ports::BatchKeyedSnap(tx0, tx1, rx)
        }
        FlowKind::TwoBatches => {
            let (tx0, in0) = node.sim_input::<i32, TotalOrder, ExactlyOnce>();
            let (tx1, in1) = node.sim_input::<i32, TotalOrder, ExactlyOnce>();
            let rx = sliced! {
                let a = use::batch(in0, nondet!(/** corpus */));
                let b = use::batch(in1, nondet!(/** corpus */));
                let av = a.fold(q!(|| Vec::new()), q!(|acc: &mut Vec<i32>, v| acc.push(v)));
                let bv = b.fold(q!(|| Vec::new()), q!(|acc: &mut Vec<i32>, v| acc.push(v)));
                av.zip(bv).into_stream()
            }
            .sim_output();
            Ports::TwoBatches(tx0, tx1, rx)
        }
        FlowKind::TopOrder => {
            let (tx, input) = node.sim_input::<i32, NoOrder, ExactlyOnce>();
            let rx = input.assume_ordering::<TotalOrder>(nondet!(/** corpus: the order is what is explored */)).sim_output();
            Ports::TopOrder(tx, rx)
        }
        FlowKind::TwoSlices => {
            let (tx0, in0) = node.sim_input::<i32, TotalOrder, ExactlyOnce>();
            let (tx1, in1) = node.sim_input::<i32, TotalOrder, ExactlyOnce>();
            let a_out = sliced! {
                let a = use::batch(in1, nondet!(/** corpus: slice A */));
                a
            };
            let a_count = a_out.count();
            let rx = sliced! {
                let b = use::batch(in0, nondet!(/** corpus: slice B */));
                let c = use::snapshot(a_count, nondet!(/** corpus: slice B */));
                b.fold(q!(|| Vec::new()), q!(|acc: &mut Vec<i32>, v| acc.push(v))).zip(c).into_stream()
            }
            .sim_output();
            Ports::TwoSlices(tx0, tx1, rx)
        }
        FlowKind::BatchFoldSnap => {
            let (tx0, in0) = node.sim_input::<i32, TotalOrder, ExactlyOnce>();
            let (tx1, in1) = node.sim_input::<i32, NoOrder, ExactlyOnce>();
            let counted = in1.fold(q!(|| 0usize), q!(|acc: &mut usize, _v| *acc += 1, commutative = manual_proof!(/** counting is commutative */)));
            let rx = sliced! {
                let b = use::batch(in0, nondet!(/** corpus */));
                let c = use::snapshot(counted, nondet!(/** corpus */));
                b.fold(q!(|| Vec::new()), q!(|acc: &mut Vec<i32>, v| acc.push(v))).zip(c).into_stream()
            }
            .sim_output();
            Ports::BatchFoldSnap(tx0, tx1, rx)
        }
    };
    let compiled = flow.sim().compiled();
    Flow { kind, compiled, ports }
}

#[cfg(stageleft_runtime)]
/// Everything observed of one instance.
#[derive(Clone, Debug)]
pub struct Obs {
    pub verdict: Verdict,
    pub log: String,
    /// records in the order they were received; for `TopOrder` one record per item
    pub recs: Vec<Rec>,
    /// how many records had been received when each `Send` step happened (send time stamps)
    pub sent_at: Vec<(usize, usize, Vec<Kv>)>,
    pub awaited: usize,
}

#[cfg(stageleft_runtime)]
#[derive(Default)]
struct Shared {
    recs: Vec<Rec>,
    sent_at: Vec<(usize, usize, Vec<Kv>)>,
    awaited: usize,
}

#[cfg(stageleft_runtime)]
impl Flow {
    /// Does the flow owe at least one more record, given what was sent and received so far?
    fn owes(kind: FlowKind, sent: &[Vec<Kv>; 2], recs: &[Rec]) -> bool {
        let got0: usize = recs.iter().map(|r| r.batch.len()).sum();
        let got1: usize = recs.iter().map(|r| r.batch2.len()).sum();
        match kind {
            FlowKind::TwoBatches => got0 < sent[0].len() || got1 < sent[1].len(),
            // a pending batch item forces a future tick; (snapshot-only progress is not awaited)
            _ => got0 < sent[0].len(),
        }
    }

    /// One instance under the given decision bytes.
    pub fn run(&self, bytes: &[u8], steps: &[Step]) -> Obs {
        let mut got = None;
        self.run_mode(Some(bytes), steps, &mut |o| got = Some(o.clone()));
        got.expect("one instance")
    }

    /// All instances the repository's exhaustive mode enumerates; returns how many.
    pub fn exhaustive(&self, steps: &[Step], mut each: impl FnMut(&Obs)) -> usize {
        self.run_mode(None, steps, &mut each)
    }

    fn run_mode(&self, bytes: Option<&[u8]>, steps: &[Step], each: &mut dyn FnMut(&Obs)) -> usize {
        let sh = Mutex::new(Shared::default());
        let each = Mutex::new(each);
        let kind = self.kind;
        macro_rules! body {
            ($send0:expr, $send1:expr, $next:expr, $collect:expr) => {{
                let shr = &sh;
                let eachr = &each;
                let the_body = async || {
                    let mut sent: [Vec<Kv>; 2] = Default::default();
                    for st in steps {
                        match st {
                            Step::Send(p, items) => {
                                let at = shr.lock().unwrap().recs.len();
                                shr.lock().unwrap().sent_at.push((*p, at, items.clone()));
                                sent[*p].extend(items.iter().copied());
                                if *p == 0 {
                                    $send0(items);
                                } else {
                                    $send1(items);
                                }
                            }
                            Step::Await => {
                                let owes = Flow::owes(kind, &sent, &shr.lock().unwrap().recs);
                                if owes {
                                    let r: Rec = $next().await;
                                    let mut g = shr.lock().unwrap();
                                    g.recs.push(r);
                                    g.awaited += 1;
                                }
                            }
                        }
                    }
                    let rest: Vec<Rec> = $collect().await;
                    shr.lock().unwrap().recs.extend(rest);
                };
                match bytes {
                    Some(b) => {
                        let (verdict, log) = run_instance(&self.compiled, b, the_body);
                        let s = std::mem::take(&mut *shr.lock().unwrap_or_else(|e| e.into_inner()));
                        (eachr.lock().unwrap())(&Obs { verdict, log, recs: s.recs, sent_at: s.sent_at, awaited: s.awaited });
                        1
                    }
                    None => {
                        install_quiet_panic_hook();
                        self.compiled.exhaustive(async || {
                            *shr.lock().unwrap() = Shared::default();
                            the_body().await;
                            let s = std::mem::take(&mut *shr.lock().unwrap());
                            (eachr.lock().unwrap())(&Obs { verdict: Verdict::Ok, log: String::new(), recs: s.recs, sent_at: s.sent_at, awaited: s.awaited });
                        })
                    }
                }
            }};
        }
        let unkey = |v: &Vec<Kv>| -> Vec<i32> { v.iter().map(|x| x.1).collect() };
        let k0 = |v: Vec<i32>| -> Vec<Kv> { v.into_iter().map(|x| (0u8, x)).collect() };
        let flat = |v: Vec<(u8, Vec<i32>)>| -> Vec<Kv> { v.into_iter().flat_map(|(k, xs)| xs.into_iter().map(move |x| (k, x))).collect() };
        match &self.ports {
            Ports::Total(tx, rx) => body!(
                |items: &Vec<Kv>| tx.send_many(unkey(items)),
                |_items: &Vec<Kv>| (),
                async || Rec { batch: k0(rx.next().await), ..Default::default() },
                async || rx.collect::<Vec<_>>().await.into_iter().map(|v| Rec { batch: k0(v), ..Default::default() }).collect()
            ),
            Ports::NoOrd(tx, rx) => body!(
                |items: &Vec<Kv>| tx.send_many_unordered(unkey(items)),
                |_items: &Vec<Kv>| (),
                async || Rec { batch: k0(rx.next().await), ..Default::default() },
                async || rx.collect::<Vec<_>>().await.into_iter().map(|v| Rec { batch: k0(v), ..Default::default() }).collect()
            ),
            Ports::KeyedTotal(tx, rx) => body!(
                |items: &Vec<Kv>| tx.send_many(items.clone()),
                |_items: &Vec<Kv>| (),
                async || Rec { batch: flat(rx.next().await), ..Default::default() },
                async || rx.collect::<Vec<_>>().await.into_iter().map(|v| Rec { batch: flat(v), ..Default::default() }).collect()
            ),
            Ports::KeyedNoOrd(tx, rx) => body!(
                |items: &Vec<Kv>| tx.send_many_unordered(items.clone()),
                |_items: &Vec<Kv>| (),
                async || Rec { batch: flat(rx.next().await), ..Default::default() },
                async || rx.collect::<Vec<_>>().await.into_iter().map(|v| Rec { batch: flat(v), ..Default::default() }).collect()
            ),
            Ports::BatchSnapState(tx0, tx1, rx) => {
                let conv = |(v, c, st): (Vec<i32>, usize, (i64, i64))| Rec { batch: k0(v), snap: vec![(0, c as i64)], state_in: st.0, state_out: st.1, ..Default::default() };
                body!(
                    |items: &Vec<Kv>| tx0.send_many(unkey(items)),
                    |items: &Vec<Kv>| tx1.send_many(unkey(items)),
                    async || conv(rx.next().await),
                    async || rx.collect::<Vec<_>>().await.into_iter().map(conv).collect()
                )
            }
            Ports::BatchKeyedSnap(tx0, tx1, rx) => {
                let conv = |(v, s): (Vec<i32>, Vec<(u8, usize)>)| Rec { batch: k0(v), snap: s.into_iter().map(|(k, c)| (k, c as i64)).collect(), ..Default::default() };
                body!(
                    |items: &Vec<Kv>| tx0.send_many(unkey(items)),
                    |items: &Vec<Kv>| tx1.send_many(items.clone()),
                    async || conv(rx.next().await),
                    async || rx.collect::<Vec<_>>().await.into_iter().map(conv).collect()
                )
            }
            Ports::TwoBatches(tx0, tx1, rx) => {
                let conv = |(a, b): (Vec<i32>, Vec<i32>)| Rec { batch: k0(a), batch2: k0(b), ..Default::default() };
                body!(
                    |items: &Vec<Kv>| tx0.send_many(unkey(items)),
                    |items: &Vec<Kv>| tx1.send_many(unkey(items)),
                    async || conv(rx.next().await),
                    async || rx.collect::<Vec<_>>().await.into_iter().map(conv).collect()
                )
            }
            Ports::TwoSlices(tx0, tx1, rx) => {
                let conv = |(v, c): (Vec<i32>, usize)| Rec { batch: k0(v), snap: vec![(0, c as i64)], ..Default::default() };
                body!(
                    |items: &Vec<Kv>| tx0.send_many(unkey(items)),
                    |items: &Vec<Kv>| tx1.send_many(unkey(items)),
                    async || conv(rx.next().await),
                    async || rx.collect::<Vec<_>>().await.into_iter().map(conv).collect()
                )
            }
            Ports::BatchFoldSnap(tx0, tx1, rx) => {
                let conv = |(v, c): (Vec<i32>, usize)| Rec { batch: k0(v), snap: vec![(0, c as i64)], ..Default::default() };
                body!(
                    |items: &Vec<Kv>| tx0.send_many(unkey(items)),
                    |items: &Vec<Kv>| tx1.send_many_unordered(unkey(items)),
                    async || conv(rx.next().await),
                    async || rx.collect::<Vec<_>>().await.into_iter().map(conv).collect()
                )
            }
            Ports::TopOrder(tx, rx) => body!(
                |items: &Vec<Kv>| tx.send_many_unordered(unkey(items)),
                |_items: &Vec<Kv>| (),
                async || Rec { batch: vec![(0, rx.next().await)], ..Default::default() },
                async || rx.collect::<Vec<_>>().await.into_iter().map(|v| Rec { batch: vec![(0, v)], ..Default::default() }).collect()
            ),
        }
    }
}

#[cfg(stageleft_runtime)]
/// Seeded workload: <=6 uniquely numbered items per input port over <=3 keys, split into send
/// steps with awaits in between.
pub fn workload(kind: FlowKind, run_seed: u64) -> Vec<Step> {
    let mut r = knob_rng(run_seed);
    let nkeys = 1 + below(&mut r, 3) as u8;
    let mut next = 1i32;
    let mut pending: Vec<Vec<Kv>> = vec![];
    for p in 0..kind.inputs() {
        let n = 1 + below(&mut r, 6);
        let mut items = vec![];
        for _ in 0..n {
            let k = if kind.keyed(p) { below(&mut r, nkeys as u64) as u8 } else { 0 };
            items.push((k, next));
            next += 1;
        }
        pending.push(items);
    }
    let mut steps = vec![];
    let await_pct = below(&mut r, 70);
    while pending.iter().any(|p| !p.is_empty()) {
        let cands: Vec<usize> = (0..pending.len()).filter(|p| !pending[*p].is_empty()).collect();
        let p = cands[below(&mut r, cands.len() as u64) as usize];
        let k = 1 + below(&mut r, pending[p].len() as u64) as usize;
        let chunk: Vec<Kv> = pending[p].drain(..k).collect();
        steps.push(Step::Send(p, chunk));
        while below(&mut r, 100) < await_pct {
            steps.push(Step::Await);
        }
    }
    steps
}

#[cfg(stageleft_runtime)]
pub fn sent_per_port(steps: &[Step]) -> [Vec<Kv>; 2] {
    let mut s: [Vec<Kv>; 2] = Default::default();
    for st in steps {
        if let Step::Send(p, items) = st {
            s[*p].extend(items.iter().copied());
        }
    }
    s
}

#[cfg(stageleft_runtime)]
pub fn per_key(v: &[Kv]) -> BTreeMap<u8, Vec<i32>> {
    let mut m: BTreeMap<u8, Vec<i32>> = BTreeMap::new();
    for (k, x) in v {
        m.entry(*k).or_default().push(*x);
    }
    m
}

#[cfg(stageleft_runtime)]
/// A corpus flow compiled on first use.
pub struct LazyFlow {
    pub kind: FlowKind,
    cell: std::cell::OnceCell<Flow>,
}
#[cfg(stageleft_runtime)]
impl LazyFlow {
    pub fn new(kind: FlowKind) -> Self {
        LazyFlow { kind, cell: std::cell::OnceCell::new() }
    }
    pub fn get(&self) -> &Flow {
        self.cell.get_or_init(|| build(self.kind))
    }
}
