//! C38: running a simulation instance twice with the same decision input gives the same sequence
//! of decisions (scheduler log), outputs and verdict — in one process, and in a fresh process
//! (opportunistically under a different, LD_PRELOADed hash seed).

use std::collections::BTreeMap;

use crate::harness::*;

use crate::corpus::*;
use crate::oracle::*;

#[cfg(stageleft_runtime)]
pub const META: PropMeta = PropMeta {
    id: "C38",
    quick_runs: 24_000,
    thorough_runs: 5_000_000,
    rule: "each run picks a corpus simulation program, a seeded workload and 4096 decision bytes, executes the instance three times in this process through CompiledSim::fuzz_repro and (for a seeded 1/16 of the runs, in batches) once more in a fresh child process — under an LD_PRELOADed getrandom shim with a different hash seed when /verif/e7_seedsim/shim.so exists — and compares decision log, outputs and verdict byte for byte. Distinct = distinct hash of (program, decision log); non-trivial = at least one item flowed AND the schedule has more than one tick/observation or served an await mid-workload.",
    time_unit: "scheduled ticks + observations (first execution)",
    real: &[
        "hydro_lang::sim::compiled::{CompiledSim::fuzz_repro, run_with_scheduler_and_logger, LaunchedSim::step, run_hooks}",
        "hydro_lang::sim::runtime hooks (FxHashMap-keyed buffers), Hooks/InlineHooks std HashMaps, generated dylib, dfir_rs runtime",
        "bolero byte driver",
    ],
    stubs: &["decision bytes expanded from the run seed", "seeded send/await workload", "byte-for-byte comparison of (log, outputs, verdict)"],
    assumptions: &[
        "fuzz_repro consumes at most the first 4096 decision bytes",
        "the cross-process leg re-runs the same test binary as a child process; the hash-seed variation is only exercised when the E7 shim has been built",
    ],
    required_probes: &["replayed_in_process", "replayed_in_child_process"],
};

#[cfg(stageleft_runtime)]
fn fingerprint(obs: &Obs) -> String {
    format!("verdict={}\nawaited={}\nrecords={:?}\nlog:\n{}", obs.verdict.text(), obs.awaited, obs.recs, obs.log)
}

#[cfg(stageleft_runtime)]
fn first_diff(a: &str, b: &str) -> String {
    for (i, (x, y)) in a.lines().zip(b.lines()).enumerate() {
        if x != y {
            return format!("line {i}: {x:?} vs {y:?}");
        }
    }
    format!("lengths {} vs {} lines", a.lines().count(), b.lines().count())
}

#[cfg(stageleft_runtime)]
/// Child mode: print one fingerprint hash per requested (scenario, run_seed).
fn child_mode(flows: &[LazyFlow]) -> bool {
    let Ok(spec) = std::env::var("VERIF_E5_CHILD") else { return false };
    println!();
    // the shim (if any) is already loaded into this process; keep it away from the cargo/rustc
    // processes that `compiled()` spawns
    unsafe { std::env::remove_var("LD_PRELOAD") };
    for item in spec.split(';').filter(|s| !s.is_empty()) {
        let mut it = item.split(',');
        let (Some(name), Some(seed), Some(hexb)) = (it.next(), it.next(), it.next()) else { continue };
        let seed: u64 = seed.parse().unwrap_or(0);
        let Some(f) = flows.iter().find(|f| f.kind.name() == name).map(|f| f.get()) else { continue };
        let bytes = if hexb == "-" { bytes_for(seed, EFFECTIVE_BYTES) } else { unhex(hexb) };
        let steps = workload(f.kind, seed);
        let obs = f.run(&bytes, &steps);
        println!("CHILDHASH {name} {seed} {:016x}", hash_str(FNV0, &fingerprint(&obs)));
    }
    true
}

#[cfg(stageleft_runtime)]
fn run_child(items: &[(String, u64, Option<Vec<u8>>)]) -> Result<BTreeMap<(String, u64), String>, String> {
    let exe = std::env::current_exe().map_err(|e| e.to_string())?;
    let spec: Vec<String> = items.iter().map(|(n, s, b)| format!("{n},{s},{}", b.as_ref().map(|b| if b.is_empty() { "00".to_string() } else { hex(b) }).unwrap_or_else(|| "-".into()))).collect();
    let mut c = std::process::Command::new(exe);
    c.args(["c38::e2e_c38", "--exact", "--nocapture", "--test-threads", "1"]);
    c.env("VERIF_E5_CHILD", spec.join(";"));
    c.env("VERIF_E5_PROP", "C38");
    c.env_remove("VERIF_REPLAY");
    c.env_remove("VERIF_E5_HASHES");
    c.env_remove("VERIF_E5_OUT");
    if let Ok(shim) = std::env::var("VERIF_E5_SHIM") {
        c.env("LD_PRELOAD", shim);
        c.env("VERIF_HASH_SEED", "7777");
    }
    let out = c.output().map_err(|e| e.to_string())?;
    let so = String::from_utf8_lossy(&out.stdout);
    if !out.status.success() {
        return Err(format!("child test process failed: {}", so.lines().rev().take(10).collect::<Vec<_>>().join(" | ")));
    }
    let mut m = BTreeMap::new();
    for l in so.lines() {
        if let Some(rest) = l.find("CHILDHASH ").map(|p| &l[p + "CHILDHASH ".len()..]) {
            let p: Vec<&str> = rest.split(' ').collect();
            if p.len() == 3 {
                m.insert((p[0].to_string(), p[1].parse().unwrap_or(0)), p[2].to_string());
            }
        }
    }
    Ok(m)
}

#[cfg(stageleft_runtime)]
type Pending = std::sync::Mutex<Vec<(String, u64, u64, String)>>;

#[cfg(stageleft_runtime)]
pub fn run_one(flow: &Flow, inp: &RunIn<'_>, pending_child: &Pending) -> RunOut {
    let kind = flow.kind;
    let steps = workload(kind, inp.run_seed);
    let a = flow.run(inp.bytes, &steps);
    let mut out = RunOut::default();
    out.probe("replayed_in_process");
    let fa = fingerprint(&a);
    // re-execute from the same bytes (more often while a candidate is being confirmed: a
    // nondeterministic simulator need not differ on every re-execution)
    for i in 0..(if inp.deep { 12 } else { 2 }) {
        let b = flow.run(inp.bytes, &steps);
        let fb = fingerprint(&b);
        if fa != fb {
            out.fail(format!("replay_differs/{}", kind.name()), format!("in one process: execution #{} from the same {} decision bytes differs from the first: {}", i + 2, inp.bytes.len(), first_diff(&fa, &fb)));
            break;
        }
    }
    if let Verdict::Panic(msg, loc) = &a.verdict {
        if !panic_in_sut(loc) && !msg.starts_with("Stream ended") && !msg.starts_with(STEP_CAP_MSG) {
            out.harness_error = Some(format!("harness-side panic at {loc}: {msg}"));
        }
    }
    let pl = parse_log(&a.log);
    out.sim_time = (pl.ticks.len() + pl.observations.len()) as u64;
    let items: usize = a.recs.iter().map(|r| r.batch.len() + r.batch2.len()).sum();
    out.nontrivial = items > 0 && (a.recs.len() > 1 || a.awaited > 0);
    let want = format!("{:016x}", hash_str(FNV0, &fa));
    out.log_hash = hash_str(FNV0, &fa);
    out.sched_hash = hash_str(FNV0, &a.log);
    if inp.verbose {
        out.text = describe(&steps, &a);
    }
    // cross-process leg: immediately when a candidate is being confirmed / replayed, otherwise
    // 1/16 of the runs are queued and compared in one child process after the batch
    if inp.deep {
        match run_child(&[(kind.name().to_string(), inp.run_seed, Some(inp.bytes.to_vec()))]) {
            Ok(m) => match m.get(&(kind.name().to_string(), inp.run_seed)) {
                Some(h) if *h == want => {}
                Some(h) => out.fail(format!("replay_differs/{}", kind.name()), format!("across processes: fingerprint {want} in this process, {h} in a fresh child process")),
                None => out.harness_error = Some("child process printed no hash".into()),
            },
            Err(e) => out.harness_error = Some(e),
        }
    } else if inp.run != u64::MAX && inp.run_seed % 16 == 0 {
        pending_child.lock().unwrap().push((kind.name().to_string(), inp.run, inp.run_seed, want));
    }
    out
}

#[cfg(stageleft_runtime)]
#[test]
fn e2e_c38() {
    let Some(cfg) = cfg_for("C38") else { return };
    let flows: Vec<LazyFlow> = FlowKind::ALL.iter().map(|k| LazyFlow::new(*k)).collect();
    if child_mode(&flows) {
        return;
    }
    let pending: Pending = std::sync::Mutex::new(vec![]);
    let pend = &pending;
    let scenarios: Vec<Scenario<'_>> = flows.iter().map(|f| Scenario { name: f.kind.name(), weight: 1, run: Box::new(move |inp: &RunIn<'_>| run_one(f.get(), inp, pend)) }).collect();
    let post = move || -> PostOut {
        let mut po = PostOut::default();
        let q: Vec<(String, u64, u64, String)> = std::mem::take(&mut *pend.lock().unwrap());
        for chunk in q.chunks(1500) {
            let items: Vec<(String, u64, Option<Vec<u8>>)> = chunk.iter().map(|(n, _, s, _)| (n.clone(), *s, None)).collect();
            match run_child(&items) {
                Ok(m) => {
                    po.probes.push(("replayed_in_child_process", chunk.len() as u64));
                    for (n, r, s, want) in chunk {
                        match m.get(&(n.clone(), *s)) {
                            Some(h) if h == want => {}
                            Some(h) => po.viols.push((format!("replay_differs/{n}"), *r, format!("across processes: run seed {s}: fingerprint {want} in this process, {h} in a fresh child process"))),
                            None => po.harness_error = Some(format!("child printed no hash for {n} {s}")),
                        }
                    }
                }
                Err(e) => po.harness_error = Some(e),
            }
        }
        po
    };
    drive(&cfg, &META, scenarios, Some(&post));
}
