//! Oracles over one observed instance of a corpus flow (shared by C36 e2e / C31 / C38).

use std::collections::BTreeMap;

use crate::harness::*;

use crate::corpus::*;

#[cfg(stageleft_runtime)]
/// Map a non-`Ok` verdict to a violation / harness error. `Ok(())` = the body completed.
pub fn verdict_gate(flow: &str, obs_verdict: &Verdict, out: &mut RunOut) -> bool {
    match obs_verdict {
        Verdict::Ok => true,
        Verdict::Discarded => {
            out.harness_error = Some(format!("flow {flow}: instance was discarded although the body has no continue_if!"));
            false
        }
        Verdict::Panic(msg, loc) => {
            if msg.starts_with(STEP_CAP_MSG) {
                out.fail(format!("livelock/{flow}"), msg.clone());
            } else if msg.starts_with("Stream ended (simulation quiescent)") {
                // the body only awaits a record while an item it sent is still unreleased
                out.fail(format!("owed_record_never_produced/{flow}"), format!("simulation went quiescent while a sent item was still pending: {msg}"));
            } else if panic_in_sut(loc) {
                let file = loc.rsplit('/').next().unwrap_or(loc).split(':').next().unwrap_or("").to_string();
                out.fail(format!("panic/{flow}/{file}"), format!("panic at {loc}: {msg}"));
            } else {
                out.harness_error = Some(format!("flow {flow}: harness-side panic at {loc}: {msg}"));
            }
            false
        }
    }
}

#[cfg(stageleft_runtime)]
fn check_partition(kind: FlowKind, what: &str, ordered: bool, sent: &[Kv], got_per_rec: &[&Vec<Kv>], out: &mut RunOut) {
    let name = kind.name();
    let got: Vec<Kv> = got_per_rec.iter().flat_map(|v| v.iter().copied()).collect();
    // nothing twice
    let mut seen = std::collections::BTreeSet::new();
    for kv in &got {
        if !seen.insert(*kv) {
            out.fail(format!("released_twice/{name}"), format!("{what}: item {kv:?} appears in two batches; batches {got_per_rec:?}"));
            return;
        }
        if !sent.contains(kv) {
            out.fail(format!("released_unknown_item/{name}"), format!("{what}: item {kv:?} was never sent; sent {sent:?}"));
            return;
        }
    }
    let (s, g) = (per_key(sent), per_key(&got));
    for (k, sv) in &s {
        let empty = vec![];
        let gv = g.get(k).unwrap_or(&empty);
        if gv.len() != sv.len() {
            out.fail(format!("item_lost/{name}"), format!("{what}: key {k}: sent {sv:?} but the batches hold {gv:?} after the simulation quiesced"));
            return;
        }
        if ordered && gv != sv {
            out.fail(format!("batch_not_in_order/{name}"), format!("{what}: key {k}: sent {sv:?} but the concatenated batches are {gv:?}"));
            return;
        }
    }
}

#[cfg(stageleft_runtime)]
/// C36 / C31 oracle over the records (outputs) of one instance.
pub fn check_records(kind: FlowKind, steps: &[Step], obs: &Obs, out: &mut RunOut) {
    let name = kind.name();
    let sent = sent_per_port(steps);
    // (1) batches partition the input
    let b0: Vec<&Vec<Kv>> = obs.recs.iter().map(|r| &r.batch).collect();
    check_partition(kind, "batch", kind.batch_ordered(), &sent[0], &b0, out);
    if kind == FlowKind::TwoBatches {
        let b1: Vec<&Vec<Kv>> = obs.recs.iter().map(|r| &r.batch2).collect();
        check_partition(kind, "second batch", true, &sent[1], &b1, out);
    }
    // causality: a record received before a send cannot contain that send's items
    for (p, at, items) in &obs.sent_at {
        for r in &obs.recs[..(*at).min(obs.recs.len())] {
            let b = if *p == 0 { &r.batch } else { &r.batch2 };
            if kind.port1_is_snapshot() && *p == 1 {
                continue;
            }
            if let Some(x) = items.iter().find(|x| b.contains(x)) {
                out.fail(format!("released_before_sent/{name}"), format!("item {x:?} was in a record received before it was sent"));
                return;
            }
        }
    }
    // (2) every tick hands the slice something new
    if kind.has_tick() {
        let mut last_snap: BTreeMap<u8, i64> = BTreeMap::new();
        for (i, r) in obs.recs.iter().enumerate() {
            let snap_new = r.snap.iter().any(|(k, v)| last_snap.get(k) != Some(v));
            // the very first snapshot is always new (nothing was released before)
            if r.batch.is_empty() && r.batch2.is_empty() && !(kind.port1_is_snapshot() && (snap_new || i == 0)) {
                out.fail(format!("tick_released_nothing_new/{name}"), format!("record #{i} {r:?} carries no new item and no new snapshot"));
                return;
            }
            for (k, v) in &r.snap {
                last_snap.insert(*k, *v);
            }
        }
    }
    // (3) snapshots never go back; the newest version is not lost; nothing from the future
    if kind.port1_is_snapshot() {
        let mut last: BTreeMap<u8, i64> = BTreeMap::new();
        for (i, r) in obs.recs.iter().enumerate() {
            // how many port-1 items had been sent when record i was received (upper bound)
            let mut sent_so_far: BTreeMap<u8, i64> = BTreeMap::new();
            for (p, at, items) in &obs.sent_at {
                if *p == 1 && *at <= i {
                    for (k, _) in items {
                        *sent_so_far.entry(*k).or_default() += 1;
                    }
                }
            }
            for (k, prev) in &last {
                match r.snap.iter().find(|(k2, _)| k2 == k) {
                    None => {
                        out.fail(format!("snapshot_went_back/{name}"), format!("record #{i}: key {k} was in an earlier snapshot (value {prev}) but is missing from {:?}", r.snap));
                        return;
                    }
                    Some((_, v)) if v < prev => {
                        out.fail(format!("snapshot_went_back/{name}"), format!("record #{i}: key {k} observed {v} after {prev}"));
                        return;
                    }
                    _ => {}
                }
            }
            for (k, v) in &r.snap {
                let bound = sent_so_far.get(k).copied().unwrap_or(0);
                if *v > bound {
                    out.fail(format!("snapshot_from_the_future/{name}"), format!("record #{i}: key {k} observed count {v} but only {bound} items had been sent"));
                    return;
                }
                last.insert(*k, *v);
            }
        }
        // after quiescence the newest version must have been observed
        let mut fin: BTreeMap<u8, i64> = BTreeMap::new();
        for (k, _) in &sent[1] {
            *fin.entry(*k).or_default() += 1;
        }
        if matches!(kind, FlowKind::BatchSnapState | FlowKind::BatchFoldSnap | FlowKind::TwoSlices) {
            fin.entry(0).or_default();
        }
        for (k, v) in &fin {
            if last.get(k) != Some(v) {
                out.fail(format!("newest_snapshot_lost/{name}"), format!("key {k}: final value is {v} but the last observed snapshot is {:?} (all records: {:?})", last.get(k), obs.recs));
                return;
            }
        }
    }
    // (4) slice-local state is carried unchanged to the next slice
    if kind == FlowKind::BatchSnapState {
        let mut prev = 0i64;
        for (i, r) in obs.recs.iter().enumerate() {
            if r.state_in != prev {
                out.fail(format!("state_not_carried/{name}"), format!("record #{i}: slice read state {} but the previous slice wrote {prev}", r.state_in));
                return;
            }
            if r.state_out != r.state_in + r.batch.len() as i64 {
                out.fail(format!("state_not_carried/{name}"), format!("record #{i}: state {} -> {} with a batch of {}", r.state_in, r.state_out, r.batch.len()));
                return;
            }
            prev = r.state_out;
        }
    }
}

#[cfg(stageleft_runtime)]
/// C36 oracle over the scheduler's decision log of one instance.
pub fn check_log(kind: FlowKind, obs: &Obs, out: &mut RunOut) -> ParsedLog {
    let name = kind.name();
    let pl = parse_log(&obs.log);
    for (i, t) in pl.ticks.iter().enumerate() {
        if !t.iter().any(|r| r.is_new()) {
            out.fail(format!("log_tick_released_nothing_new/{name}"), format!("tick #{i} in the decision log releases nothing new: {t:?}"));
            return pl;
        }
    }
    if kind == FlowKind::TwoSlices {
        // two ticks (slice A and slice B) share the log; only slice B emits records
        if pl.ticks.len() < obs.recs.len() {
            out.fail(format!("log_tick_count_mismatch/{name}"), format!("{} ticks in the decision log but {} records were emitted", pl.ticks.len(), obs.recs.len()));
        }
    } else if kind.has_tick() {
        if pl.ticks.len() != obs.recs.len() {
            out.fail(format!("log_tick_count_mismatch/{name}"), format!("{} ticks in the decision log but {} records were emitted", pl.ticks.len(), obs.recs.len()));
            return pl;
        }
        if matches!(kind, FlowKind::Total | FlowKind::NoOrd | FlowKind::TwoBatches) {
            for (i, (t, r)) in pl.ticks.iter().zip(&obs.recs).enumerate() {
                let mut logged: Vec<i64> = vec![];
                let mut parsable = true;
                for rel in t {
                    match rel.int_items() {
                        Some(v) => logged.extend(v),
                        None => parsable = false,
                    }
                }
                if !parsable {
                    continue;
                }
                let mut rec: Vec<i64> = r.batch.iter().chain(&r.batch2).map(|x| x.1 as i64).collect();
                logged.sort();
                rec.sort();
                if logged != rec {
                    out.fail(format!("log_disagrees_with_output/{name}"), format!("tick #{i}: the log says {logged:?} was released but the slice saw {rec:?}"));
                    return pl;
                }
            }
        }
    } else if pl.observations.len() != obs.recs.len() {
        out.fail(format!("log_observation_count_mismatch/{name}"), format!("{} observations logged but {} items were emitted", pl.observations.len(), obs.recs.len()));
    }
    pl
}

#[cfg(stageleft_runtime)]
pub fn describe(steps: &[Step], obs: &Obs) -> Vec<String> {
    let mut t = vec![format!("workload: {steps:?}")];
    t.push(format!("verdict: {}", obs.verdict.text()));
    for (i, r) in obs.recs.iter().enumerate() {
        t.push(format!("record #{i}: {r:?}"));
    }
    t.push("decision log:".into());
    t.extend(obs.log.lines().filter(|l| !l.trim().is_empty()).map(|l| format!("  {l}")));
    t
}

#[cfg(stageleft_runtime)]
pub fn obs_hash(obs: &Obs) -> u64 {
    let mut h = hash_str(FNV0, &obs.log);
    h = hash_str(h, &format!("{:?}{:?}{}", obs.recs, obs.verdict, obs.awaited));
    h
}
