//! C31: slices partition streams, take monotone snapshots, and carry slice-local state.
//! Corpus slice programs under seeded decision bytes (`fuzz_repro`), plus the repository's
//! exhaustive mode on the smallest entries as a second explorer (every enumerated instance is
//! held to the same record oracle).

use std::sync::Mutex;

use crate::harness::*;

use crate::corpus::*;
use crate::oracle::*;

#[cfg(stageleft_runtime)]
pub const META: PropMeta = PropMeta {
    id: "C31",
    quick_runs: 60_000,
    thorough_runs: 40_000_000,
    rule: "each run picks a corpus slice program (use::batch on a total / unordered / keyed-total / keyed-unordered stream; use::batch + use::snapshot(count) + use::state; use::batch + use::snapshot(keyed count); two use::batch in one slice), a seeded workload (<=6 uniquely numbered items per input over <=3 keys, send steps interleaved with awaits) and 4096 decision bytes for CompiledSim::fuzz_repro; every slice emits one record (batch, snapshot, state before/after). One extra scenario runs CompiledSim::exhaustive on the two smallest programs and applies the same oracle to every enumerated instance. Distinct = distinct hash of (program, decision log); non-trivial = at least one item flowed AND more than one slice ran or an await was served mid-workload.",
    time_unit: "slices (ticks) executed",
    real: &[
        "hydro_lang sliced! expansion (live_collections::sliced::{mod, style}), SimBuilder::batch / snapshot hooks, use::state cycles, tick DFIR generated into the simulator dylib",
        "hydro_lang::sim::compiled scheduler + hooks; CompiledSim::{fuzz_repro, exhaustive}",
    ],
    stubs: &["decision bytes expanded from the run seed", "seeded send/await workload", "record oracle: partition / monotone snapshots / state carry-over"],
    assumptions: &[
        "in the simulator the hooks of one slice are independent decisions: demanded is only that batch and snapshot of one record belong to the same tick, that the snapshot is some version >= the previously observed one and not from the future, and that the newest version is observed before quiescence",
        "production code generation under random tick partitions is E4's leg, not this one",
        "fuzz_repro consumes at most the first 4096 decision bytes",
    ],
    required_probes: &["slice_partition_multi_batch", "slice_snapshot_skipped_or_repeated", "slice_state_carried", "exhaustive_small_programs"],
};

#[cfg(stageleft_runtime)]
pub fn run_one(flow: &Flow, inp: &RunIn<'_>) -> RunOut {
    let kind = flow.kind;
    let steps = workload(kind, inp.run_seed);
    let obs = flow.run(inp.bytes, &steps);
    let mut out = RunOut::default();
    if verdict_gate(kind.name(), &obs.verdict, &mut out) {
        check_records(kind, &steps, &obs, &mut out);
        out.sim_time = obs.recs.len() as u64;
        if obs.recs.iter().filter(|r| !r.batch.is_empty()).count() > 1 {
            out.probe("slice_partition_multi_batch");
        }
        if kind.port1_is_snapshot() {
            let snaps: Vec<&Vec<(u8, i64)>> = obs.recs.iter().map(|r| &r.snap).collect();
            if snaps.windows(2).any(|w| w[0] == w[1]) || obs.log.contains("skipping earlier states") {
                out.probe("slice_snapshot_skipped_or_repeated");
            }
        }
        if kind == FlowKind::BatchSnapState && obs.recs.len() > 1 && obs.recs.last().is_some_and(|r| r.state_in > 0) {
            out.probe("slice_state_carried");
        }
        let items: usize = obs.recs.iter().map(|r| r.batch.len() + r.batch2.len()).sum();
        out.nontrivial = items > 0 && (obs.recs.len() > 1 || obs.awaited > 0);
    }
    out.log_hash = obs_hash(&obs);
    out.sched_hash = hash_str(FNV0, &obs.log);
    if inp.verbose {
        out.text = describe(&steps, &obs);
    }
    out
}

#[cfg(stageleft_runtime)]
/// The repository's exhaustive mode as an explorer: all schedules of two small programs.
fn exhaustive_small(flows: &[LazyFlow]) -> RunOut {
    let mut out = RunOut::default();
    let mut total = 0usize;
    for kind in [FlowKind::Total, FlowKind::BatchSnapState] {
        let f = flows.iter().find(|f| f.kind == kind).unwrap().get();
        let steps = match kind {
            FlowKind::Total => vec![Step::Send(0, vec![(0, 1), (0, 2), (0, 3)])],
            _ => vec![Step::Send(0, vec![(0, 1), (0, 2)]), Step::Send(1, vec![(0, 3), (0, 4)])],
        };
        let found = Mutex::new(RunOut::default());
        let swept = std::panic::catch_unwind(std::panic::AssertUnwindSafe(|| {
            f.exhaustive(&steps, |obs| {
                let mut o = RunOut::default();
                check_records(kind, &steps, obs, &mut o);
                if let Some(v) = o.violation {
                    found.lock().unwrap().fail(format!("exhaustive/{}", v.0), format!("{} — records {:?}", v.1, obs.recs));
                }
            })
        }));
        let n = match swept {
            Ok(n) => n,
            Err(_) => {
                let (msg, loc) = take_last_panic();
                out.fail(format!("exhaustive/instance_panicked/{}", kind.name()), format!("an instance enumerated by CompiledSim::exhaustive panicked at {loc}: {msg}"));
                0
            }
        };
        total += n;
        let f = found.into_inner().unwrap();
        if let Some(v) = f.violation {
            out.fail(v.0, v.1);
        }
        out.text.push(format!("exhaustive {}: {n} instances", kind.name()));
    }
    out.probe("exhaustive_small_programs");
    out.sim_time = total as u64;
    out.log_hash = total as u64;
    out.sched_hash = 0x31;
    out.nontrivial = total > 1;
    out
}

#[cfg(stageleft_runtime)]
#[test]
fn e2e_c31() {
    let Some(cfg) = cfg_for("C31") else { return };
    let kinds: Vec<FlowKind> = FlowKind::ALL.iter().copied().filter(|k| k.has_tick()).collect();
    let flows: Vec<LazyFlow> = kinds.iter().map(|k| LazyFlow::new(*k)).collect();
    let fl = &flows;
    let mut scenarios: Vec<Scenario<'_>> = flows.iter().map(|f| Scenario { name: f.kind.name(), weight: 400, run: Box::new(move |inp: &RunIn<'_>| run_one(f.get(), inp)) }).collect();
    let cache: std::cell::OnceCell<RunOut> = std::cell::OnceCell::new();
    scenarios.push(Scenario {
        name: "exhaustive_small",
        weight: 1,
        run: Box::new(move |_inp: &RunIn<'_>| {
            let first = cache.get().is_none();
            let mut o = cache.get_or_init(|| exhaustive_small(fl)).clone();
            if !first && o.violation.is_none() {
                // the sweep is deterministic: later draws of this scenario add nothing
                o.discarded = true;
                o.probes.clear();
            }
            o
        }),
    });
    drive(&cfg, &META, scenarios, None);
}
