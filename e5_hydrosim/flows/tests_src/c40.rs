//! C40: the Raft example never commits different entries at the same log position, for every
//! schedule the repository's simulator produces under the fail-stop network model.
//!
//! `hydro_test::cluster::raft::raft`, cluster size 3, `TCP.fail_stop()`. The workload (which timer
//! fires at which member, which member gets a client request, heartbeat pumps, and which rounds
//! are separated by `sim::quiesce()` barriers) is drawn from the run seed; every delivery /
//! batching / tick-order decision comes from the decision bytes. Safety oracle only.
//!
//! (Paxos: `hydro_test::cluster::paxos` drives its leader election with wall-clock
//! `tokio::time::interval` sources, which the simulator cannot own — see `paxos_probe` below.)

use std::sync::Mutex;

use crate::harness::*;
use hydro_lang::live_collections::stream::{ExactlyOnce, TotalOrder};
use hydro_lang::location::MemberId;
use hydro_lang::prelude::*;
use hydro_lang::sim::compiled::CompiledSim;
use hydro_lang::sim::{SimClusterReceiver, SimClusterSender};
use hydro_test::cluster::raft::{LogEntry, RaftConfig, Replica, raft};

#[cfg(stageleft_runtime)]
pub const META: PropMeta = PropMeta {
    id: "C40",
    quick_runs: 1_600,
    thorough_runs: 800_000,
    rule: "each run draws a workload from the run seed — optionally an uncontested warm-up election plus a committed seed entry, then 2-5 rounds of 1-6 actions (election-timer interrupt / client request / heartbeat-timer interrupt, each at a seeded member of the 3-member cluster); a seeded subset of rounds is barrier-free (no sim::quiesce between them, so timers race with deliveries) — and 4096 decision bytes for CompiledSim::fuzz_repro (delivery order, batching, tick order). After every barrier and at the end each member's newly committed entries are appended to its history. Distinct = distinct hash of (workload, decision log); non-trivial = at least one entry was committed by at least two members AND at least one barrier-free round carried two or more actions.",
    time_unit: "scheduled ticks",
    real: &[
        "hydro_test::cluster::raft::{raft, raft_server, raft_step} (election + replication state machine, quorum of acks, truncation guard)",
        "hydro_lang simulator: cluster of 3 members, fail-stop network channels, scheduler, hooks; CompiledSim::fuzz_repro",
    ],
    stubs: &["decision bytes expanded from the run seed", "seeded timer/request workload", "safety oracle: contiguous indexes per member, pairwise prefix consistency of committed histories"],
    assumptions: &[
        "safety only: no liveness is asserted (a run in which nothing commits is legal, counted as trivial)",
        "fail-stop network model of the simulator (no loss, no duplication; arbitrary delay and reordering across channels)",
        "fuzz_repro consumes at most the first 4096 decision bytes; longer runs continue under the byte driver's all-zero answers (round-robin tick choice, minimal batches), which is still a legal schedule",
        "Paxos (paxos, paxos_with_client) is not covered: its timers are wall-clock tokio intervals that the simulator does not control",
    ],
    required_probes: &["raft_entry_committed_by_two_members", "raft_barrier_free_round", "raft_leader_changed_or_contested"],
};

#[cfg(stageleft_runtime)]
struct Flow {
    compiled: CompiledSim,
    election: SimClusterSender<(), TotalOrder, ExactlyOnce>,
    heartbeat: SimClusterSender<(), TotalOrder, ExactlyOnce>,
    request: SimClusterSender<String, TotalOrder, ExactlyOnce>,
    committed: SimClusterReceiver<LogEntry<String>, TotalOrder, ExactlyOnce>,
    redirected: SimClusterReceiver<(String, Option<MemberId<Replica>>), TotalOrder, ExactlyOnce>,
}

#[cfg(stageleft_runtime)]
const N: usize = 3;

#[cfg(stageleft_runtime)]
fn build() -> Flow {
    let mut flow = FlowBuilder::new();
    let cluster = flow.cluster::<Replica>();
    let (election, election_timer_interrupts) = cluster.sim_input();
    let (heartbeat, heartbeat_timer_interrupts) = cluster.sim_input();
    let (request, requests) = cluster.sim_input::<String, _, _>();
    let (committed, redirected) = raft(
        requests,
        election_timer_interrupts,
        heartbeat_timer_interrupts,
        RaftConfig { cluster_size: N },
        || TCP.fail_stop().bincode(),
        nondet!(/** which member leads and how concurrent requests are ordered is non-deterministic; the committed sequence must not be */),
    );
    let committed = committed.end_atomic().sim_cluster_output();
    let redirected = redirected.sim_cluster_output();
    let compiled = flow.sim().skip_consistency_assertions().with_cluster_size(&cluster, N).compiled();
    Flow { compiled, election, heartbeat, request, committed, redirected }
}

#[cfg(stageleft_runtime)]
#[derive(Clone, Debug)]
enum Act {
    Election(u32),
    Heartbeat(u32),
    Request(u32, String),
}
#[cfg(stageleft_runtime)]
#[derive(Clone, Debug)]
struct Round {
    acts: Vec<Act>,
    barrier_after: bool,
}
#[cfg(stageleft_runtime)]
#[derive(Clone, Debug)]
struct Work {
    warmup: bool,
    rounds: Vec<Round>,
}

#[cfg(stageleft_runtime)]
fn workload(run_seed: u64) -> Work {
    let mut r = knob_rng(run_seed);
    let warmup = below(&mut r, 4) != 0;
    let nrounds = 2 + below(&mut r, 4) as usize;
    let election_pct = 10 + below(&mut r, 35);
    let request_pct = 20 + below(&mut r, 40);
    let barrier_pct = below(&mut r, 80);
    let mut req = 0;
    let mut rounds = vec![];
    for _ in 0..nrounds {
        let n = 1 + below(&mut r, 6);
        let mut acts = vec![];
        for _ in 0..n {
            let m = below(&mut r, N as u64) as u32;
            let c = below(&mut r, 100);
            if c < election_pct {
                acts.push(Act::Election(m));
            } else if c < election_pct + request_pct {
                req += 1;
                // requests go to member 0 (the warm-up leader) more often than elsewhere
                let m = if below(&mut r, 2) == 0 { 0 } else { m };
                acts.push(Act::Request(m, format!("req-{req}")));
            } else {
                acts.push(Act::Heartbeat(m));
            }
        }
        rounds.push(Round { acts, barrier_after: below(&mut r, 100) < barrier_pct });
    }
    Work { warmup, rounds }
}

#[cfg(stageleft_runtime)]
#[derive(Default, Clone, Debug)]
struct Hist {
    committed: Vec<Vec<LogEntry<String>>>,
    /// violation found at an observation point (checked inside the body so that the failing
    /// prefix of the workload is known)
    fork: Option<String>,
    checkpoints: usize,
    lines: Vec<String>,
}

#[cfg(stageleft_runtime)]
fn check_histories(h: &[Vec<LogEntry<String>>]) -> Option<(String, String)> {
    for (m, hist) in h.iter().enumerate() {
        for (pos, e) in hist.iter().enumerate() {
            if e.index != pos + 1 {
                return Some((
                    "committed_index_gap_or_rewrite".into(),
                    format!("member {m} emitted committed indexes {:?}: position {pos} carries index {}", hist.iter().map(|e| e.index).collect::<Vec<_>>(), e.index),
                ));
            }
        }
    }
    for a in 0..h.len() {
        for b in (a + 1)..h.len() {
            for (pos, (x, y)) in h[a].iter().zip(&h[b]).enumerate() {
                if x != y {
                    return Some(("committed_logs_forked".into(), format!("members {a} and {b} disagree at committed position {pos}: {x:?} vs {y:?}")));
                }
            }
        }
    }
    None
}

#[cfg(stageleft_runtime)]
impl Flow {
    fn run(&self, bytes: &[u8], w: &Work) -> (Verdict, String, Hist) {
        let hist = Mutex::new(Hist { committed: vec![vec![]; N], ..Default::default() });
        let hr = &hist;
        let (v, log) = run_instance(&self.compiled, bytes, async || {
            let collect_and_check = async |what: &str| {
                hydro_lang::sim::quiesce().await;
                let mut g_new: Vec<Vec<LogEntry<String>>> = vec![];
                for m in 0..N as u32 {
                    g_new.push(self.committed.collect::<Vec<_>>(m).await);
                    let _: Vec<(String, Option<MemberId<Replica>>)> = self.redirected.collect(m).await;
                }
                let mut g = hr.lock().unwrap();
                for (m, new) in g_new.into_iter().enumerate() {
                    g.committed[m].extend(new);
                }
                g.checkpoints += 1;
                let lens: Vec<usize> = g.committed.iter().map(|c| c.len()).collect();
                g.lines.push(format!("barrier after {what}: committed lengths {lens:?}"));
                if g.fork.is_none() {
                    if let Some((c, d)) = check_histories(&g.committed) {
                        g.fork = Some(format!("{c}|{d}"));
                    }
                }
            };
            if w.warmup {
                // member 0 wins term 1 uncontested and commits a seed entry (race free)
                self.election.send(0, ());
                collect_and_check("warm-up election").await;
                self.request.send(0, "seed".to_owned());
                for _ in 0..4 {
                    self.heartbeat.send(0, ());
                    collect_and_check("warm-up heartbeat").await;
                }
            }
            for (i, rd) in w.rounds.iter().enumerate() {
                for a in &rd.acts {
                    match a {
                        Act::Election(m) => self.election.send(*m, ()),
                        Act::Heartbeat(m) => self.heartbeat.send(*m, ()),
                        Act::Request(m, s) => self.request.send(*m, s.clone()),
                    }
                }
                hr.lock().unwrap().lines.push(format!("round {i}: {:?} barrier_after={}", rd.acts, rd.barrier_after));
                if rd.barrier_after {
                    collect_and_check(&format!("round {i}")).await;
                }
            }
            // settle: let whoever leads now finish replicating, then the final check
            for s in 0..2 {
                for m in 0..N as u32 {
                    self.heartbeat.send(m, ());
                }
                collect_and_check(&format!("settle {s}")).await;
            }
        });
        (v, log, hist.into_inner().unwrap_or_else(|e| e.into_inner()))
    }
}

#[cfg(stageleft_runtime)]
fn run_one(f: &Flow, inp: &RunIn<'_>) -> RunOut {
    let w = workload(inp.run_seed);
    let (v, log, h) = f.run(inp.bytes, &w);
    let mut out = RunOut::default();
    let pl = parse_log(&log);
    out.sim_time = pl.ticks.len() as u64;
    out.sched_hash = hash_str(hash_str(FNV0, &log), &format!("{w:?}"));
    out.log_hash = hash_str(out.sched_hash, &format!("{:?}{v:?}", h.committed));
    if inp.verbose {
        out.text.push(format!("workload: warmup={} rounds={:?}", w.warmup, w.rounds));
        out.text.push(format!("verdict: {}", v.text()));
        out.text.extend(h.lines.iter().cloned());
        for (m, c) in h.committed.iter().enumerate() {
            out.text.push(format!("member {m} committed {c:?}"));
        }
        out.text.push(format!("decision log: {} ticks, {} bytes (not reproduced here)", pl.ticks.len(), log.len()));
    }
    match &v {
        Verdict::Ok => {}
        Verdict::Discarded => {
            out.discarded = true;
            return out;
        }
        Verdict::Panic(msg, loc) => {
            if msg.starts_with(STEP_CAP_MSG) {
                out.fail("livelock/raft", msg.clone());
            } else if panic_in_sut(loc) {
                let file = loc.rsplit('/').next().unwrap_or(loc).split(':').next().unwrap_or("").to_string();
                out.fail(format!("panic/raft/{file}"), format!("panic at {loc}: {msg}"));
            } else {
                out.harness_error = Some(format!("harness-side panic at {loc}: {msg}"));
            }
            return out;
        }
    }
    if let Some(f) = &h.fork {
        let (c, d) = f.split_once('|').unwrap_or((f.as_str(), ""));
        out.fail(format!("raft/{c}"), d.to_string());
        return out;
    }
    if let Some((c, d)) = check_histories(&h.committed) {
        out.fail(format!("raft/{c}"), d);
        return out;
    }
    let two = h.committed.iter().filter(|c| !c.is_empty()).count() >= 2;
    if two {
        out.probe("raft_entry_committed_by_two_members");
    }
    let racy = w.rounds.windows(2).any(|p| !p[0].barrier_after && p[0].acts.len() + p[1].acts.len() >= 2) || w.rounds.iter().any(|r| !r.barrier_after && r.acts.len() >= 2);
    if racy {
        out.probe("raft_barrier_free_round");
    }
    let terms: std::collections::BTreeSet<usize> = h.committed.iter().flatten().map(|e| e.term_received).collect();
    if terms.len() > 1 || w.rounds.iter().flat_map(|r| &r.acts).filter(|a| matches!(a, Act::Election(_))).count() >= 2 {
        out.probe("raft_leader_changed_or_contested");
    }
    out.nontrivial = two && racy;
    out
}

#[cfg(stageleft_runtime)]
#[test]
fn e2e_c40() {
    let Some(cfg) = cfg_for("C40") else { return };
    // one program, several identically built scenario slots so that the runs spread over the
    // shard processes (runs are assigned to shards by scenario index)
    let flows: Vec<Lazy<Flow>> = (0..8).map(|_| Lazy::new(build)).collect();
    const NAMES: [&str; 8] = ["raft3_a", "raft3_b", "raft3_c", "raft3_d", "raft3_e", "raft3_f", "raft3_g", "raft3_h"];
    let scenarios: Vec<Scenario<'_>> = flows.iter().zip(NAMES).map(|(f, name)| Scenario { name, weight: 1, run: Box::new(move |inp: &RunIn<'_>| run_one(f.get(), inp)) }).collect();
    drive(&cfg, &META, scenarios, None);
}

