//! e5_flows — the stageleft "flows" crate of engine E5: small Hydro programs (corpus) that are
//! compiled by the repository's own simulator (`flow.sim().compiled()`), and the `#[test]`
//! functions that drive instances of them with seeded decision bytes. The tests are not meant to
//! be run by hand: the `e5_hydrosim` wrapper runs them through `cargo test` (see its `e2e.rs`).
#[cfg(stageleft_runtime)]
hydro_lang::setup!();

/// Location tags used by corpus programs (must be nameable from the staged copy of this crate).
pub mod tags {
    pub struct Client;
    pub struct Server;
}

#[cfg(test)]
mod c31;
#[cfg(test)]
mod c34;
#[cfg(test)]
mod c36;
#[cfg(test)]
mod c37;
#[cfg(test)]
mod c38;
#[cfg(test)]
mod c39;
#[cfg(test)]
mod c40;
#[cfg(test)]
mod corpus;
#[cfg(test)]
mod harness;
#[cfg(test)]
mod oracle;
