use std::sync::Mutex;
use std::time::Instant;

use e5_harness::*;
use hydro_lang::live_collections::stream::{ExactlyOnce, TotalOrder};
use hydro_lang::prelude::*;

#[cfg(stageleft_runtime)]
#[test]
fn probe0() {
    let t0 = Instant::now();
    let mut flow = FlowBuilder::new();
    let node = flow.process::<()>();
    let (in_send, input) = node.sim_input::<i32, TotalOrder, ExactlyOnce>();
    let out_recv = sliced! {
        let b = use::batch(input, nondet!(/** probe */));
        b.fold(q!(|| Vec::new()), q!(|acc: &mut Vec<i32>, v| acc.push(v))).into_stream()
    }
    .sim_output();
    let compiled = flow.sim().compiled();
    eprintln!("compiled in {:?}", t0.elapsed());
    let t1 = Instant::now();
    let n = 2000;
    let mut logs = 0usize;
    for r in 0..n {
        let bytes = bytes_for(r, 4096);
        let got = Mutex::new(Vec::<Vec<i32>>::new());
        let (v, log) = run_instance(&compiled, &bytes, async || {
            in_send.send_many([1, 2, 3, 4, 5]);
            let all: Vec<Vec<i32>> = out_recv.collect().await;
            *got.lock().unwrap() = all;
        });
        assert_eq!(v, Verdict::Ok);
        logs += log.len();
        if r < 2 {
            eprintln!("{log}\n{:?}\n{:?}", got.lock().unwrap(), parse_log(&log));
        }
    }
    eprintln!("{n} instances in {:?}, log bytes {logs}", t1.elapsed());
}
