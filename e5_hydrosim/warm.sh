#!/bin/bash
# /verif/e5_hydrosim/warm.sh — setup step for E5: builds the engine binary and the e5_flows test
# binary, then compiles (and thereby caches, content-hash keyed) every simulator dylib the
# end-to-end legs load, by running each leg with a handful of runs. Idempotent; offline.
set -u
cd "$(dirname "$0")"
export CARGO_NET_OFFLINE=true
export VERIF_DIR="${VERIF_DIR:-$(cd .. && pwd)}"
cargo build --release --offline -p e5_hydrosim || exit 2
cargo test --release --offline -p e5_flows --lib --no-run || exit 2
scratch="$(mktemp -d /var/tmp/verif-scratch-e5-warm-XXXXXX)"
mkdir -p "$scratch/evidence" "$scratch/replays"
cp -r "$VERIF_DIR/known_findings.json" "$scratch/" 2>/dev/null
ln -s "$VERIF_DIR/e5_hydrosim" "$scratch/e5_hydrosim"
rc=0
for id in C36 C38 C31 C37 C39 C34 C40; do
  echo "== warming $id"
  VERIF_DIR="$scratch" VERIF_E5_ONLY=e2e ./target/release/e5_hydrosim "$id" --runs 64 --no-selftest || echo "(warm run of $id exited $?; ignored: warming only)"
done
rm -rf "$scratch"
[ $rc = 0 ] && echo "e5 warm ok"
exit $rc
