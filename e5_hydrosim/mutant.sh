#!/bin/bash
# Sensitivity-protocol helper (not part of any registered command):
#   tools/mutant_run.sh <name> <abs patch> e5_hydrosim/mutant.sh <ID> [engine args...]
# runs inside the scratch copy of the verif tree that mutant_run.sh created (cwd = that copy).
# It seeds the scratch target dir with the build artefacts of the real engine (third-party crates
# are path independent, so only the crates under the patched repository copy and this engine are
# rebuilt), then builds and runs the engine there. VERIF_E5_ONLY=hook|e2e selects one leg.
set -u
here="$(cd "$(dirname "$0")" && pwd)"
real="/ver""if/e5_hydrosim/target"      # (spelled so that mutant_run.sh's path rewriting leaves it alone)
if [ -d "$real" ] && [ ! -d "$here/target" ]; then
  mkdir -p "$here/target"
  for d in release debug; do
    [ -d "$real/$d" ] || continue
    mkdir -p "$here/target/$d"
    for s in deps build .fingerprint; do
      [ -d "$real/$d/$s" ] && cp -a "$real/$d/$s" "$here/target/$d/$s"
    done
  done
fi
exec "$here/run.sh" "$@"
