//! `SimDriver`: a `bolero` `DynDriver` whose every answer is a recorded `simcore::Sim` decision.
//!
//! The repository's simulator hooks (`hydro_lang::sim::runtime::*`) draw all of their choices from
//! a `&mut Borrowed<'_>(pub &mut dyn DynDriver)`; handing them this driver makes my seeded PRNG
//! (or a replayed decision list) the only source of nondeterminism of a hook-level run, and every
//! `(kind, lo, hi, value)` ends up in the run's decision trace.

use std::ops::Bound;

use bolero::generator::bolero_generator::driver::object::DynDriver;
use simcore::Sim;

pub struct SimDriver<'a> {
    pub sim: &'a mut Sim,
    /// number of decisions the code under test asked for
    pub asked: u64,
    /// number of those with more than one legal answer where the answer was not `lo`
    pub nonbenign: u64,
}

impl<'a> SimDriver<'a> {
    pub fn new(sim: &'a mut Sim) -> Self {
        SimDriver { sim, asked: 0, nonbenign: 0 }
    }

    fn range_u64(&mut self, site: &'static str, lo: u64, hi: u64) -> u64 {
        self.asked += 1;
        let v = self.sim.choose(site, lo, hi);
        if v != lo {
            self.nonbenign += 1;
        }
        v
    }
}

/// mirror of bolero's `Uniform::bounds_to_range` for unsigned values widened to u64
fn bounds_u(min: Bound<u64>, max: Bound<u64>, ty_max: u64) -> Option<(u64, u64)> {
    let lo = match min {
        Bound::Included(v) => v,
        Bound::Excluded(v) => v.checked_add(1)?,
        Bound::Unbounded => 0,
    };
    let hi = match max {
        Bound::Included(v) => v,
        Bound::Excluded(v) => v.checked_sub(1)?,
        Bound::Unbounded => ty_max,
    };
    if lo > hi { None } else { Some((lo, hi)) }
}

fn bounds_i(min: Bound<i64>, max: Bound<i64>, ty_min: i64, ty_max: i64) -> Option<(i64, i64)> {
    let lo = match min {
        Bound::Included(v) => v,
        Bound::Excluded(v) => v.checked_add(1)?,
        Bound::Unbounded => ty_min,
    };
    let hi = match max {
        Bound::Included(v) => v,
        Bound::Excluded(v) => v.checked_sub(1)?,
        Bound::Unbounded => ty_max,
    };
    if lo > hi { None } else { Some((lo, hi)) }
}

fn mapb<T: Copy, U>(b: Bound<&T>, f: impl Fn(T) -> U) -> Bound<U> {
    match b {
        Bound::Included(v) => Bound::Included(f(*v)),
        Bound::Excluded(v) => Bound::Excluded(f(*v)),
        Bound::Unbounded => Bound::Unbounded,
    }
}

macro_rules! gen_unsigned {
    ($name:ident, $ty:ty, $site:literal) => {
        fn $name(&mut self, min: Bound<&$ty>, max: Bound<&$ty>) -> Option<$ty> {
            let (lo, hi) = bounds_u(mapb(min, |v| v as u64), mapb(max, |v| v as u64), <$ty>::MAX as u64)?;
            Some(self.range_u64($site, lo, hi) as $ty)
        }
    };
}
macro_rules! gen_signed {
    ($name:ident, $ty:ty, $site:literal) => {
        fn $name(&mut self, min: Bound<&$ty>, max: Bound<&$ty>) -> Option<$ty> {
            let (lo, hi) =
                bounds_i(mapb(min, |v| v as i64), mapb(max, |v| v as i64), <$ty>::MIN as i64, <$ty>::MAX as i64)?;
            let span = (hi as i128 - lo as i128) as u64;
            let off = self.range_u64($site, 0, span);
            Some((lo as i128 + off as i128) as $ty)
        }
    };
}

impl DynDriver for SimDriver<'_> {
    fn depth(&self) -> usize {
        0
    }
    fn set_depth(&mut self, _depth: usize) {}
    fn max_depth(&self) -> usize {
        5
    }
    fn gen_variant(&mut self, variants: usize, _base_case: usize) -> Option<usize> {
        if variants == 0 {
            return None;
        }
        Some(self.range_u64("variant", 0, variants as u64 - 1) as usize)
    }
    gen_unsigned!(gen_u8, u8, "u8");
    gen_unsigned!(gen_u16, u16, "u16");
    gen_unsigned!(gen_u32, u32, "u32");
    gen_unsigned!(gen_u64, u64, "u64");
    gen_unsigned!(gen_usize, usize, "usize");
    gen_signed!(gen_i8, i8, "i8");
    gen_signed!(gen_i16, i16, "i16");
    gen_signed!(gen_i32, i32, "i32");
    gen_signed!(gen_i64, i64, "i64");
    gen_signed!(gen_isize, isize, "isize");
    fn gen_u128(&mut self, min: Bound<&u128>, max: Bound<&u128>) -> Option<u128> {
        // the hooks never ask for 128-bit values; answer within the low 64 bits of the range
        let lo = match min {
            Bound::Included(v) => *v,
            Bound::Excluded(v) => v.checked_add(1)?,
            Bound::Unbounded => 0,
        };
        let hi = match max {
            Bound::Included(v) => *v,
            Bound::Excluded(v) => v.checked_sub(1)?,
            Bound::Unbounded => u128::MAX,
        };
        if lo > hi {
            return None;
        }
        let span = (hi - lo).min(u64::MAX as u128) as u64;
        Some(lo + self.range_u64("u128", 0, span) as u128)
    }
    fn gen_i128(&mut self, min: Bound<&i128>, max: Bound<&i128>) -> Option<i128> {
        let lo = match min {
            Bound::Included(v) => *v,
            Bound::Excluded(v) => v.checked_add(1)?,
            Bound::Unbounded => i128::MIN,
        };
        let hi = match max {
            Bound::Included(v) => *v,
            Bound::Excluded(v) => v.checked_sub(1)?,
            Bound::Unbounded => i128::MAX,
        };
        if lo > hi {
            return None;
        }
        let span = (hi.wrapping_sub(lo) as u128).min(u64::MAX as u128) as u64;
        Some(lo.wrapping_add(self.range_u64("i128", 0, span) as i128))
    }
    fn gen_f32(&mut self, min: Bound<&f32>, max: Bound<&f32>) -> Option<f32> {
        let lo = match min {
            Bound::Included(v) | Bound::Excluded(v) => *v,
            Bound::Unbounded => 0.0,
        };
        let hi = match max {
            Bound::Included(v) | Bound::Excluded(v) => *v,
            Bound::Unbounded => 1.0,
        };
        let k = self.range_u64("f32", 0, 1000);
        Some(lo + (hi - lo) * (k as f32 / 1001.0))
    }
    fn gen_f64(&mut self, min: Bound<&f64>, max: Bound<&f64>) -> Option<f64> {
        let lo = match min {
            Bound::Included(v) | Bound::Excluded(v) => *v,
            Bound::Unbounded => 0.0,
        };
        let hi = match max {
            Bound::Included(v) | Bound::Excluded(v) => *v,
            Bound::Unbounded => 1.0,
        };
        let k = self.range_u64("f64", 0, 1000);
        Some(lo + (hi - lo) * (k as f64 / 1001.0))
    }
    fn gen_char(&mut self, min: Bound<&char>, max: Bound<&char>) -> Option<char> {
        let (lo, hi) = bounds_u(mapb(min, |v| v as u64), mapb(max, |v| v as u64), char::MAX as u64)?;
        let v = self.range_u64("char", lo, hi.min(0xD7FF).max(lo));
        char::from_u32(v as u32)
    }
    fn gen_bool(&mut self, _probability: Option<f32>) -> Option<bool> {
        Some(self.range_u64("bool", 0, 1) == 1)
    }
    fn gen_from_bytes(
        &mut self,
        hint: &mut dyn FnMut() -> (usize, Option<usize>),
        produce: &mut dyn FnMut(&[u8]) -> Option<usize>,
    ) -> Option<()> {
        let (min, max) = hint();
        let max = max.unwrap_or(min).max(min).min(64);
        let len = self.range_u64("bytes_len", min as u64, max as u64) as usize;
        let mut buf = vec![0u8; len];
        for b in buf.iter_mut() {
            *b = self.range_u64("byte", 0, 255) as u8;
        }
        produce(&buf)?;
        Some(())
    }
}
