//! E5 `e5_hydrosim` — the repository's own simulator driven by my decision stream
//! (DESIGN.md §4 E5). This binary hosts
//!   * the hook-level checks (C36 soundness, C37 exhaustive coverage) as ordinary
//!     `simcore::runner` scenarios over the real `hydro_lang::sim::runtime` hooks, and
//!   * the wrapper that runs the end-to-end (compiled dylib) checks, which are `#[test]`s of the
//!     stageleft crate `/verif/e5_hydrosim/flows`, through `cargo test` and maps their result to
//!     the 0/1/2 contract (see `e2e.rs`).
mod c36;
mod c37;
mod driver;
mod e2e;
mod probe;

use simcore::runner::{Engine, Prop, Scenario};

fn hook_engine() -> Engine {
    Engine {
        name: "e5_hydrosim",
        props: vec![Prop {
            id: "C36",
            scenarios: vec![
                Scenario { name: "tick", weight: 4, run: c36::run_tick },
                Scenario { name: "observation", weight: 2, run: c36::run_observation },
                Scenario { name: "inline", weight: 1, run: c36::run_inline },
                // batch hook + PassthroughSingletonHook in one tick (exposed finding #1, findings/NOTES.txt)
                Scenario { name: "passthrough_tick", weight: 1, run: c36::run_passthrough_tick },
            ],
            quick_runs: 600_000,
            thorough_runs: 150_000_000,
            rule: "hook level: each run draws knobs (1-3 batch hooks of seeded kinds forming one tick, or one top-level hook forming an observation, or one in-tick ordering hook; 1-3 keys; <=6 uniquely numbered items per hook; arrivals per step; logging on/off) and then alternates seeded arrivals with scheduled ticks whose every release decision is answered by the recorded decision stream. Distinct = distinct hash of the realised decision trace; non-trivial = at least one item/snapshot was released AND at least one decision with more than one legal answer was answered with a non-first choice.",
            time_unit: "scheduled ticks/observations",
            real: &[
                "hydro_lang::sim::runtime::{StreamHook<TotalOrder|NoOrder>, KeyedStreamHook<TotalOrder|NoOrder>, SingletonHook, PassthroughSingletonHook, KeyedSingletonHook, TopLevelStreamOrderHook, TopLevelKeyedStreamOrderHook, TopLevelPartiallyOrderedStreamHook, TopLevelFoldHook, TopLevelMergeOrderedHook, TopLevelKeyedMergeOrderedHook, StreamOrderHook, MergeOrderedHook, KeyedStreamOrderHook, PartiallyOrderedStreamHook, KeyedMergeOrderedHook}: autonomous_decision, release_decision, current_decision, can_make_nontrivial_decision, is_ready",
                "dfir_rs::util::unsync::mpsc (hook output channels)",
            ],
            stubs: &[
                "decision source: SimDriver (bolero DynDriver answering from simcore::Sim)",
                "producer of pending items (push_back / entry(k).or_default().push_back, as the generated async DFIR does)",
                "calling protocol of compiled.rs::{can_run, run_hooks} mirrored in the harness (the real scheduler runs in the end-to-end leg)",
                "reference model: enqueued-minus-released per input/key; version index for snapshots",
            ],
            assumptions: &[
                "sampled decision sequences, not exhaustive; <=3 hooks per tick, <=3 keys, <=6 items per hook",
                "the harness mirrors the private run_hooks/can_run protocol of compiled.rs; force_nontrivial is only ever passed to a hook whose can_make_nontrivial_decision() is true, and a hook is only asked to decide when is_ready() holds, as in the real scheduler",
                "snapshot hooks may skip intermediate versions; demanded is only: never an older version, nothing released twice, newest version never lost, returned bool truthful",
                "keyed snapshot = per-key version vector with 'absent' as the oldest version: a key that was in an earlier snapshot must stay in later ones",
            ],
            required_probes: &[
                "forced_nontrivial_decision",
                "trivial_first_pass_decision",
                "released_nothing_while_pending",
                "partial_release_left_items_pending",
                "snapshot_released_with_newer_pending",
                "tick_blocked_on_unready_singleton",
                "inline_order_changed",
                "log_writer_enabled",
            ],
        },
        Prop {
            id: "C37",
            scenarios: vec![
                Scenario { name: "tick_cfg", weight: 3, run: c37::run_tick_cfg },
                Scenario { name: "observation_cfg", weight: 1, run: c37::run_observation_cfg },
            ],
            quick_runs: 200_000,
            thorough_runs: 60_000_000,
            rule: "hook level: each run draws a small configuration (1-2 batch hooks forming a tick, or one top-level hook forming an observation; <=4 items over <=2 keys; 1-3 consecutive ticks with fixed arrivals), obtains the set S of outcome tuples the repository's hooks reach under bolero's real exhaustive driver (cached per configuration), then draws one legal outcome tuple from an independent reference description of the decision space and tests membership in S. Distinct = distinct (configuration, sampled reference outcome); non-trivial = the sampled outcome releases at least one item/snapshot AND at least one reference decision was not the first choice.",
            time_unit: "reference ticks/observations sampled",
            real: &[
                "hydro_lang::sim::runtime hooks (all batch and top-level kinds) enumerated through bolero_generator::driver::exhaustive::Driver + driver::object::{Object, Borrowed} (the adaptor CompiledSim::exhaustive uses)",
            ],
            stubs: &[
                "calling protocol of compiled.rs::{can_run, run_hooks} mirrored in the harness",
                "independent reference description of the decision space: any prefix length (TotalOrder), any subset (NoOrder, compared as sets), any snapshot version >= the last released one or absent for a never-released key, one pending element / any non-empty permuted subset / any front element for the top-level kinds; every tick releases something new",
            ],
            assumptions: &[
                "membership is sampled: a clean batch says the sampled reference schedules were all reached, not that S is complete",
                "NoOrder batches are compared as sets, exactly as the pruning comment in runtime.rs argues; order across keys is never compared",
                "the order of ready ticks and observations (scheduler level) is covered by the end-to-end leg, not here",
            ],
            required_probes: &["exhaustive_space_has_several_outcomes"],
        }],
    }
}

const HOOK_LEG: &[&str] = &["C36", "C37"];
const E2E_LEG: &[&str] = &["C36", "C37", "C38", "C39", "C31", "C34", "C40"];

fn main() {
    // the hook-level leg is this same binary re-entered as an ordinary simcore::runner engine
    if std::env::var("VERIF_E5_LEG").as_deref() == Ok("hook") {
        simcore::runner::main(hook_engine());
    }
    let t0 = std::time::Instant::now();
    let args = simcore::runner::parse_args();
    let prop = args.prop.clone();
    if !E2E_LEG.contains(&prop.as_str()) {
        eprintln!("HARNESS: engine e5_hydrosim does not serve property '{prop}'");
        std::process::exit(2);
    }
    let only = std::env::var("VERIF_E5_ONLY").unwrap_or_default(); // "hook" | "e2e" | "" (debugging aid)
    let exe = std::env::current_exe().expect("current_exe");
    let hook_cmd = || {
        let mut c = std::process::Command::new(&exe);
        c.args(std::env::args().skip(1)).env("VERIF_E5_LEG", "hook");
        c
    };
    // --replay: route by the kind of payload in the file
    if let Some(path) = &args.replay {
        let is_e2e = std::fs::read_to_string(path).map(|s| s.contains("\"bytes_hex\"")).unwrap_or(false);
        if is_e2e {
            std::process::exit(e2e::run(&prop, &args).exit);
        }
        let st = hook_cmd().status().expect("spawn hook leg");
        std::process::exit(st.code().unwrap_or(2));
    }
    let mut exit = 0;
    let mut hook_ev = None;
    // the two legs run side by side; the hook leg's output is printed when it has finished
    let hook_child = if HOOK_LEG.contains(&prop.as_str()) && only != "e2e" {
        Some(hook_cmd().stdout(std::process::Stdio::piped()).stderr(std::process::Stdio::piped()).spawn().expect("spawn hook leg"))
    } else {
        None
    };
    let mut e2e_ev = None;
    let mut e2e_exit = 0;
    if only != "hook" {
        let r = e2e::run(&prop, &args);
        e2e_exit = r.exit;
        e2e_ev = r.evidence;
    }
    if let Some(child) = hook_child {
        let out = child.wait_with_output().expect("wait hook leg");
        print!("{}", String::from_utf8_lossy(&out.stdout));
        eprint!("{}", String::from_utf8_lossy(&out.stderr));
        let code = out.status.code().unwrap_or(2);
        if code == 2 {
            std::process::exit(2);
        }
        exit = exit.max(code);
        let p = simcore::runner::verif_dir().join("evidence").join(format!("{prop}.json"));
        hook_ev = std::fs::read_to_string(&p).ok().and_then(|s| serde_json::from_str(&s).ok());
    }
    if e2e_exit == 2 {
        std::process::exit(2);
    }
    exit = exit.max(e2e_exit);
    if let Err(e) = e2e::write_evidence(&prop, &args, hook_ev, e2e_ev, t0.elapsed().as_secs_f64()) {
        eprintln!("HARNESS: {e}");
        std::process::exit(2);
    }
    std::process::exit(exit);
}
