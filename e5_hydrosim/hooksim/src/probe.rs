//! Hook probes: one real `hydro_lang::sim::runtime` hook + the harness' reference model of what is
//! pending in it. Shared by the C36 (soundness) and C37 (exhaustive-coverage) hook-level checks.
//!
//! The model is deliberately dumb: "everything ever enqueued, minus everything ever released, in
//! enqueue order" (streams) or "the sequence of versions the singleton took" (snapshots). The
//! oracles compare what the hook sends on its output channel with that model at exactly the
//! granularity C36 states.

use std::cell::RefCell;
use std::collections::{BTreeMap, VecDeque};
use std::marker::PhantomData;
use std::rc::Rc;
use std::task::{Context, Poll, Waker};

use dfir_rs::rustc_hash::FxHashMap;
use dfir_rs::util::unsync::mpsc::{Receiver, unbounded};
use hydro_lang::live_collections::stream::{NoOrder, TotalOrder};
use hydro_lang::sim::runtime::{
    KeyedSingletonHook, KeyedStreamHook, PassthroughSingletonHook, SimHook, SingletonHook, StreamHook,
    TopLevelFoldHook, TopLevelKeyedMergeOrderedHook, TopLevelKeyedStreamOrderHook, TopLevelMergeOrderedHook,
    TopLevelPartiallyOrderedStreamHook, TopLevelStreamOrderHook,
};
use simcore::Violation;

pub type Item = u32;
pub type Key = u8;
type Q = Rc<RefCell<VecDeque<Item>>>;
type KQ = Rc<RefCell<FxHashMap<Key, VecDeque<Item>>>>;

const LOC: (&str, &str, &str) = ("e5_hydrosim/probe.rs:1:1", "    let b = s.batch(&tick, nondet!());", "            ");

fn dbg_item(v: &Item) -> Option<String> {
    Some(format!("{v}"))
}
fn dbg_key(v: &Key) -> Option<String> {
    Some(format!("k{v}"))
}
fn dbg_kv(v: &(Key, Item)) -> Option<String> {
    Some(format!("(k{}, {})", v.0, v.1))
}

pub fn drain<T>(rx: &mut Receiver<T>) -> Vec<T> {
    let cx = Context::from_waker(Waker::noop());
    let mut out = vec![];
    while let Poll::Ready(Some(x)) = rx.poll_recv(&cx) {
        out.push(x);
    }
    out
}

#[derive(Clone, Copy, Debug, PartialEq, Eq, PartialOrd, Ord)]
pub enum Kind {
    StreamTotal,
    StreamNoOrder,
    KeyedTotal,
    KeyedNoOrder,
    Singleton,
    Passthrough,
    KeyedSingleton,
    TopOrder,
    TopKeyedOrder,
    TopPartial,
    TopFold,
    TopMerge,
    TopKeyedMerge,
}
impl Kind {
    pub const TICK: [Kind; 7] = [
        Kind::StreamTotal,
        Kind::StreamNoOrder,
        Kind::KeyedTotal,
        Kind::KeyedNoOrder,
        Kind::Singleton,
        Kind::KeyedSingleton,
        Kind::Passthrough,
    ];
    pub const TOP: [Kind; 6] =
        [Kind::TopOrder, Kind::TopKeyedOrder, Kind::TopPartial, Kind::TopFold, Kind::TopMerge, Kind::TopKeyedMerge];
    pub fn name(self) -> &'static str {
        match self {
            Kind::StreamTotal => "stream_total",
            Kind::StreamNoOrder => "stream_noorder",
            Kind::KeyedTotal => "keyed_total",
            Kind::KeyedNoOrder => "keyed_noorder",
            Kind::Singleton => "singleton",
            Kind::Passthrough => "passthrough_singleton",
            Kind::KeyedSingleton => "keyed_singleton",
            Kind::TopOrder => "top_order",
            Kind::TopKeyedOrder => "top_keyed_order",
            Kind::TopPartial => "top_partial_order",
            Kind::TopFold => "top_fold",
            Kind::TopMerge => "top_merge",
            Kind::TopKeyedMerge => "top_keyed_merge",
        }
    }
    pub fn keyed(self) -> bool {
        matches!(
            self,
            Kind::KeyedTotal | Kind::KeyedNoOrder | Kind::KeyedSingleton | Kind::TopKeyedOrder | Kind::TopPartial | Kind::TopKeyedMerge
        )
    }
    pub fn two_inputs(self) -> bool {
        matches!(self, Kind::TopMerge | Kind::TopKeyedMerge)
    }
}

/// What one `release_decision` put on the output channel, normalised.
#[derive(Clone, Debug, PartialEq, Eq, PartialOrd, Ord)]
pub enum Released {
    Items(Vec<Item>),
    Keyed(Vec<(Key, Item)>),
}
impl Released {
    pub fn is_empty(&self) -> bool {
        match self {
            Released::Items(v) => v.is_empty(),
            Released::Keyed(v) => v.is_empty(),
        }
    }
    pub fn len(&self) -> usize {
        match self {
            Released::Items(v) => v.len(),
            Released::Keyed(v) => v.len(),
        }
    }
}

enum Chan {
    Items(Receiver<Item>),
    Keyed(Receiver<(Key, Item)>),
    Batches(Receiver<Vec<Item>>),
}

enum Input {
    Q(Q),
    KQ(KQ),
    Q2(Q, Q),
    KQ2(KQ, KQ),
}

/// Reference model state.
enum Model {
    /// pending items in enqueue order (per input for merges: index 0 / 1)
    Stream { pending: [Vec<Item>; 2] },
    Keyed { pending: [BTreeMap<Key, Vec<Item>>; 2] },
    /// all versions ever enqueued, index of the last released one
    Snap { versions: Vec<Item>, last: Option<usize> },
    KeyedSnap { versions: BTreeMap<Key, Vec<Item>>, last: BTreeMap<Key, usize> },
}

pub struct Probe {
    pub kind: Kind,
    pub hook: Box<dyn SimHook>,
    input: Input,
    chan: Chan,
    model: Model,
    pub enqueued: u64,
    pub released: u64,
}

fn viol(kind: Kind, what: &str, detail: String) -> Violation {
    Violation::new(format!("{}/{}", kind.name(), what), detail)
}

impl Probe {
    pub fn new(kind: Kind) -> Probe {
        let q = || -> Q { Rc::new(RefCell::new(VecDeque::new())) };
        let kq = || -> KQ { Rc::new(RefCell::new(FxHashMap::default())) };
        let (hook, input, chan, model): (Box<dyn SimHook>, Input, Chan, Model) = match kind {
            Kind::StreamTotal => {
                let (tx, rx) = unbounded();
                let i = q();
                (
                    Box::new(StreamHook::<Item, TotalOrder> {
                        input: i.clone(),
                        to_release: None,
                        output: tx,
                        batch_location: LOC,
                        format_item_debug: dbg_item,
                        _order: PhantomData,
                    }),
                    Input::Q(i),
                    Chan::Items(rx),
                    Model::Stream { pending: Default::default() },
                )
            }
            Kind::StreamNoOrder => {
                let (tx, rx) = unbounded();
                let i = q();
                (
                    Box::new(StreamHook::<Item, NoOrder> {
                        input: i.clone(),
                        to_release: None,
                        output: tx,
                        batch_location: LOC,
                        format_item_debug: dbg_item,
                        _order: PhantomData,
                    }),
                    Input::Q(i),
                    Chan::Items(rx),
                    Model::Stream { pending: Default::default() },
                )
            }
            Kind::KeyedTotal => {
                let (tx, rx) = unbounded();
                let i = kq();
                (
                    Box::new(KeyedStreamHook::<Key, Item, TotalOrder> {
                        input: i.clone(),
                        to_release: None,
                        output: tx,
                        batch_location: LOC,
                        format_item_debug: dbg_kv,
                        _order: PhantomData,
                    }),
                    Input::KQ(i),
                    Chan::Keyed(rx),
                    Model::Keyed { pending: Default::default() },
                )
            }
            Kind::KeyedNoOrder => {
                let (tx, rx) = unbounded();
                let i = kq();
                (
                    Box::new(KeyedStreamHook::<Key, Item, NoOrder> {
                        input: i.clone(),
                        to_release: None,
                        output: tx,
                        batch_location: LOC,
                        format_item_debug: dbg_kv,
                        _order: PhantomData,
                    }),
                    Input::KQ(i),
                    Chan::Keyed(rx),
                    Model::Keyed { pending: Default::default() },
                )
            }
            Kind::Singleton => {
                let (tx, rx) = unbounded();
                let i = q();
                (
                    Box::new(SingletonHook::<Item>::new(i.clone(), tx, LOC, dbg_item)),
                    Input::Q(i),
                    Chan::Items(rx),
                    Model::Snap { versions: vec![], last: None },
                )
            }
            Kind::Passthrough => {
                let (tx, rx) = unbounded();
                let i = q();
                (
                    Box::new(PassthroughSingletonHook::<Item>::new(i.clone(), tx, LOC, dbg_item)),
                    Input::Q(i),
                    Chan::Items(rx),
                    Model::Snap { versions: vec![], last: None },
                )
            }
            Kind::KeyedSingleton => {
                let (tx, rx) = unbounded();
                let i = kq();
                (
                    Box::new(KeyedSingletonHook::<Key, Item>::new(i.clone(), tx, LOC, dbg_key, dbg_item)),
                    Input::KQ(i),
                    Chan::Keyed(rx),
                    Model::KeyedSnap { versions: BTreeMap::new(), last: BTreeMap::new() },
                )
            }
            Kind::TopOrder => {
                let (tx, rx) = unbounded();
                let i = q();
                (
                    Box::new(TopLevelStreamOrderHook::<Item> {
                        input: i.clone(),
                        to_release: None,
                        output: tx,
                        location: LOC,
                        format_item_debug: dbg_item,
                    }),
                    Input::Q(i),
                    Chan::Items(rx),
                    Model::Stream { pending: Default::default() },
                )
            }
            Kind::TopKeyedOrder => {
                let (tx, rx) = unbounded();
                let i = kq();
                (
                    Box::new(TopLevelKeyedStreamOrderHook::<Key, Item> {
                        input: i.clone(),
                        to_release: None,
                        output: tx,
                        location: LOC,
                        format_item_debug: dbg_kv,
                    }),
                    Input::KQ(i),
                    Chan::Keyed(rx),
                    Model::Keyed { pending: Default::default() },
                )
            }
            Kind::TopPartial => {
                let (tx, rx) = unbounded();
                let i = kq();
                (
                    Box::new(TopLevelPartiallyOrderedStreamHook::<Key, Item> {
                        input: i.clone(),
                        to_release: None,
                        output: tx,
                        location: LOC,
                        format_item_debug: dbg_kv,
                    }),
                    Input::KQ(i),
                    Chan::Keyed(rx),
                    Model::Keyed { pending: Default::default() },
                )
            }
            Kind::TopFold => {
                let (tx, rx) = unbounded();
                let i = q();
                (
                    Box::new(TopLevelFoldHook::<Item> {
                        input: i.clone(),
                        to_release: None,
                        output: tx,
                        location: LOC,
                        format_item_debug: dbg_item,
                    }),
                    Input::Q(i),
                    Chan::Batches(rx),
                    Model::Stream { pending: Default::default() },
                )
            }
            Kind::TopMerge => {
                let (tx, rx) = unbounded();
                let (a, b) = (q(), q());
                (
                    Box::new(TopLevelMergeOrderedHook::<Item> {
                        first: a.clone(),
                        second: b.clone(),
                        to_release: None,
                        release_source: None,
                        output: tx,
                        location: LOC,
                        format_item_debug: dbg_item,
                    }),
                    Input::Q2(a, b),
                    Chan::Items(rx),
                    Model::Stream { pending: Default::default() },
                )
            }
            Kind::TopKeyedMerge => {
                let (tx, rx) = unbounded();
                let (a, b) = (kq(), kq());
                (
                    Box::new(TopLevelKeyedMergeOrderedHook::<Key, Item> {
                        first: a.clone(),
                        second: b.clone(),
                        to_release: None,
                        release_source: None,
                        output: tx,
                        location: LOC,
                        format_item_debug: dbg_kv,
                    }),
                    Input::KQ2(a, b),
                    Chan::Keyed(rx),
                    Model::Keyed { pending: Default::default() },
                )
            }
        };
        Probe { kind, hook, input, chan, model, enqueued: 0, released: 0 }
    }

    /// Ordered kinds: releases must respect enqueue order (per key / per input).
    fn ordered(&self) -> bool {
        matches!(
            self.kind,
            Kind::StreamTotal | Kind::KeyedTotal | Kind::TopPartial | Kind::TopMerge | Kind::TopKeyedMerge
        )
    }

    /// A new item arrives (what the async DFIR's `for_each(|v| buffered.push_back(v))` does).
    /// `side` selects the input of a two-input hook.
    pub fn arrive(&mut self, key: Key, item: Item, side: usize) {
        self.enqueued += 1;
        match (&self.input, &mut self.model) {
            (Input::Q(q), Model::Stream { pending }) => {
                q.borrow_mut().push_back(item);
                pending[0].push(item);
            }
            (Input::Q(q), Model::Snap { versions, .. }) => {
                q.borrow_mut().push_back(item);
                versions.push(item);
            }
            (Input::KQ(q), Model::Keyed { pending }) => {
                q.borrow_mut().entry(key).or_default().push_back(item);
                pending[0].entry(key).or_default().push(item);
            }
            (Input::KQ(q), Model::KeyedSnap { versions, .. }) => {
                q.borrow_mut().entry(key).or_default().push_back(item);
                versions.entry(key).or_default().push(item);
            }
            (Input::Q2(a, b), Model::Stream { pending }) => {
                if side == 0 { a } else { b }.borrow_mut().push_back(item);
                pending[side].push(item);
            }
            (Input::KQ2(a, b), Model::Keyed { pending }) => {
                if side == 0 { a } else { b }.borrow_mut().entry(key).or_default().push_back(item);
                pending[side].entry(key).or_default().push(item);
            }
            _ => unreachable!("probe input/model mismatch"),
        }
    }

    /// Model's view: is there anything new this hook could release?
    pub fn model_has_new(&self) -> bool {
        match &self.model {
            Model::Stream { pending } => pending.iter().any(|p| !p.is_empty()),
            Model::Keyed { pending } => pending.iter().any(|m| m.values().any(|p| !p.is_empty())),
            Model::Snap { versions, last } => last.is_none_or(|l| l + 1 < versions.len()) && !versions.is_empty(),
            Model::KeyedSnap { versions, last } => {
                versions.iter().any(|(k, v)| last.get(k).is_none_or(|l| l + 1 < v.len()) && !v.is_empty())
            }
        }
    }

    /// Take what the hook put on its output channel.
    pub fn take_output(&mut self) -> Released {
        match &mut self.chan {
            Chan::Items(rx) => Released::Items(drain(rx)),
            Chan::Keyed(rx) => Released::Keyed(drain(rx)),
            Chan::Batches(rx) => Released::Items(drain(rx).into_iter().flatten().collect()),
        }
    }

    fn actual_q(&self) -> [Vec<Item>; 2] {
        match &self.input {
            Input::Q(q) => [q.borrow().iter().copied().collect(), vec![]],
            Input::Q2(a, b) => [a.borrow().iter().copied().collect(), b.borrow().iter().copied().collect()],
            _ => unreachable!(),
        }
    }
    fn actual_kq(&self) -> [BTreeMap<Key, Vec<Item>>; 2] {
        let conv = |m: &KQ| -> BTreeMap<Key, Vec<Item>> {
            let mut out = BTreeMap::new();
            // order-insensitive: collected into a BTreeMap
            for (k, v) in m.borrow().iter() {
                if !v.is_empty() {
                    out.insert(*k, v.iter().copied().collect());
                }
            }
            out
        };
        match &self.input {
            Input::KQ(q) => [conv(q), BTreeMap::new()],
            Input::KQ2(a, b) => [conv(a), conv(b)],
            _ => unreachable!(),
        }
    }

    /// Check one completed decision (`autonomous_decision` returned `returned`, possibly under
    /// `forced`, then `release_decision` ran and `out` is what arrived on the output channel).
    /// Returns whether, by the model, the decision released something new.
    pub fn check(&mut self, out: &Released, returned: bool, forced: bool) -> Result<bool, Violation> {
        let kind = self.kind;
        let ordered = self.ordered();
        self.released += out.len() as u64;
        let nontrivial = match (&mut self.model, out) {
            (Model::Stream { pending }, Released::Items(items)) => {
                // every released item is pending in exactly one input, no item twice
                let mut taken: [Vec<Item>; 2] = Default::default();
                for it in items {
                    let side = if pending[0].contains(it) {
                        0
                    } else if pending[1].contains(it) {
                        1
                    } else {
                        return Err(viol(kind, "released_not_pending", format!("released {it} which is not pending (pending {pending:?}, batch {items:?})")));
                    };
                    if taken[side].contains(it) {
                        return Err(viol(kind, "released_twice", format!("item {it} twice in batch {items:?}")));
                    }
                    taken[side].push(*it);
                }
                for side in 0..2 {
                    if ordered && taken[side][..] != pending[side][..taken[side].len()] {
                        return Err(viol(
                            kind,
                            "not_a_prefix",
                            format!("released {:?} from input {side} is not an in-order prefix of pending {:?}", taken[side], pending[side]),
                        ));
                    }
                    pending[side].retain(|x| !taken[side].contains(x));
                }
                !items.is_empty()
            }
            (Model::Keyed { pending }, Released::Keyed(items)) => {
                let mut taken: [BTreeMap<Key, Vec<Item>>; 2] = Default::default();
                for (k, it) in items {
                    let side = if pending[0].get(k).is_some_and(|p| p.contains(it)) {
                        0
                    } else if pending[1].get(k).is_some_and(|p| p.contains(it)) {
                        1
                    } else {
                        return Err(viol(kind, "released_not_pending", format!("released (k{k},{it}) which is not pending under that key (pending {pending:?}, batch {items:?})")));
                    };
                    let t = taken[side].entry(*k).or_default();
                    if t.contains(it) {
                        return Err(viol(kind, "released_twice", format!("item (k{k},{it}) twice in batch {items:?}")));
                    }
                    t.push(*it);
                }
                for side in 0..2 {
                    for (k, t) in &taken[side] {
                        let p = pending[side].get_mut(k).unwrap();
                        if ordered && t[..] != p[..t.len()] {
                            return Err(viol(kind, "not_a_prefix", format!("key k{k}: released {t:?} from input {side} is not an in-order prefix of pending {p:?}")));
                        }
                        p.retain(|x| !t.contains(x));
                    }
                    pending[side].retain(|_, p| !p.is_empty());
                }
                !items.is_empty()
            }
            (Model::Snap { versions, last }, Released::Items(items)) => {
                if items.len() != 1 {
                    return Err(viol(kind, "snapshot_count", format!("a singleton hook released {} values in one decision: {items:?}", items.len())));
                }
                let v = items[0];
                let Some(idx) = versions.iter().position(|x| *x == v) else {
                    return Err(viol(kind, "snapshot_unknown", format!("released snapshot {v} was never enqueued (versions {versions:?})")));
                };
                if let Some(l) = *last
                    && idx < l
                {
                    return Err(viol(kind, "snapshot_went_back", format!("released version #{idx} ({v}) after version #{l} ({})", versions[l])));
                }
                let is_new = last.is_none_or(|l| idx > l);
                *last = Some(idx);
                is_new
            }
            (Model::KeyedSnap { versions, last }, Released::Keyed(items)) => {
                let mut seen: BTreeMap<Key, usize> = BTreeMap::new();
                let mut any_new = false;
                for (k, v) in items {
                    let Some(idx) = versions.get(k).and_then(|vs| vs.iter().position(|x| x == v)) else {
                        return Err(viol(kind, "snapshot_unknown", format!("released (k{k},{v}) was never enqueued under that key (versions {versions:?})")));
                    };
                    if seen.insert(*k, idx).is_some() {
                        return Err(viol(kind, "released_twice", format!("key k{k} twice in one snapshot {items:?}")));
                    }
                    if let Some(l) = last.get(k)
                        && idx < *l
                    {
                        return Err(viol(kind, "snapshot_went_back", format!("key k{k}: released version #{idx} after version #{l} (batch {items:?})")));
                    }
                    if last.get(k).is_none_or(|l| idx > *l) {
                        any_new = true;
                    }
                }
                for k in last.keys() {
                    if !seen.contains_key(k) {
                        return Err(viol(kind, "snapshot_went_back", format!("key k{k} was in an earlier snapshot but is missing from {items:?}")));
                    }
                }
                for (k, idx) in seen {
                    last.insert(k, idx);
                }
                any_new
            }
            _ => unreachable!("probe model/output mismatch"),
        };
        if returned != nontrivial {
            return Err(viol(kind, "untruthful_bool", format!("autonomous_decision returned {returned} but the decision released {} ({out:?})", if nontrivial { "something new" } else { "nothing new" })));
        }
        if forced && !nontrivial {
            return Err(viol(kind, "forced_but_trivial", format!("force_nontrivial was set but nothing new was released ({out:?})")));
        }
        self.check_pending()?;
        Ok(nontrivial)
    }

    /// released ∪ still-pending == everything ever enqueued: the hook's real input buffer must
    /// hold exactly what the model says is still pending.
    pub fn check_pending(&self) -> Result<(), Violation> {
        let kind = self.kind;
        let ordered = self.ordered();
        match &self.model {
            Model::Stream { pending } => {
                let actual = self.actual_q();
                for side in 0..2 {
                    let (mut a, mut p) = (actual[side].clone(), pending[side].clone());
                    if !ordered {
                        a.sort();
                        p.sort();
                    }
                    if a != p {
                        return Err(viol(kind, "pending_lost_or_duplicated", format!("input {side} buffer holds {:?} but enqueued-minus-released is {:?}", actual[side], pending[side])));
                    }
                }
            }
            Model::Keyed { pending } => {
                let actual = self.actual_kq();
                for side in 0..2 {
                    let norm = |m: &BTreeMap<Key, Vec<Item>>| -> BTreeMap<Key, Vec<Item>> {
                        m.iter()
                            .map(|(k, v)| {
                                let mut v = v.clone();
                                if !ordered {
                                    v.sort();
                                }
                                (*k, v)
                            })
                            .collect()
                    };
                    if norm(&actual[side]) != norm(&pending[side]) {
                        return Err(viol(kind, "pending_lost_or_duplicated", format!("input {side} buffer holds {:?} but enqueued-minus-released is {:?}", actual[side], pending[side])));
                    }
                }
            }
            Model::Snap { versions, last } => {
                let actual = &self.actual_q()[0];
                snap_pending_ok(kind, None, versions, *last, actual)?;
            }
            Model::KeyedSnap { versions, last } => {
                let actual = &self.actual_kq()[0];
                for (k, vs) in versions {
                    let empty = vec![];
                    snap_pending_ok(kind, Some(*k), vs, last.get(k).copied(), actual.get(k).unwrap_or(&empty))?;
                }
                for k in actual.keys() {
                    if !versions.contains_key(k) {
                        return Err(viol(kind, "pending_lost_or_duplicated", format!("buffer has key k{k} that was never enqueued")));
                    }
                }
            }
        }
        Ok(())
    }

    /// Canonical description of everything still pending (for C37 outcome tuples / state hashes).
    pub fn pending_fingerprint(&self) -> String {
        match &self.model {
            Model::Stream { pending } => format!("{pending:?}"),
            Model::Keyed { pending } => format!("{pending:?}"),
            Model::Snap { versions, last } => format!("{}/{last:?}", versions.len()),
            Model::KeyedSnap { versions, last } => format!("{:?}/{last:?}", versions.iter().map(|(k, v)| (*k, v.len())).collect::<Vec<_>>()),
        }
    }
}

/// Snapshot hooks may skip (drop) intermediate versions, but what stays buffered must be newer
/// than the released version, in order, without duplicates, and the newest enqueued version must
/// not be lost.
fn snap_pending_ok(kind: Kind, key: Option<Key>, versions: &[Item], last: Option<usize>, actual: &[Item]) -> Result<(), Violation> {
    let kd = key.map(|k| format!("key k{k}: ")).unwrap_or_default();
    let mut prev: Option<usize> = last;
    for a in actual {
        let Some(idx) = versions.iter().position(|x| x == a) else {
            return Err(viol(kind, "pending_lost_or_duplicated", format!("{kd}buffer holds {a} which was never enqueued")));
        };
        if prev.is_some_and(|p| idx <= p) {
            return Err(viol(kind, "pending_lost_or_duplicated", format!("{kd}buffer {actual:?} holds version #{idx} which is not newer than #{prev:?} (already released or out of order)")));
        }
        prev = Some(idx);
    }
    if !versions.is_empty() {
        let newest = versions.len() - 1;
        let newest_ok = last == Some(newest) || actual.last() == Some(&versions[newest]);
        if !newest_ok {
            return Err(viol(kind, "newest_snapshot_lost", format!("{kd}newest version {} is neither released (last #{last:?}) nor buffered ({actual:?})", versions[newest])));
        }
    }
    Ok(())
}
