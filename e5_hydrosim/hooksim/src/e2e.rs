//! Wrapper around the end-to-end (compiled dylib) legs: they are `#[test]`s of the stageleft crate
//! `e5_flows` (the repository's simulator stages the *test* crate's source and needs the crate's
//! `cfg(test)` initialiser), run here through `cargo test` in parallel shard processes. This file
//! reproduces the `simcore::runner` contract for them: determinism self-test across processes,
//! violation grouping, fresh-process confirmation from the replay file before `VIOLATION` is
//! printed, known findings, evidence JSON, exit codes 0/1/2 (a failing Rust test that is not a
//! confirmed violation is exit 2, never 1).

use std::collections::{BTreeMap, BTreeSet};
use std::path::{Path, PathBuf};
use std::process::{Command, Stdio};
use std::time::Instant;

use serde_json::{Value, json};
use simcore::runner::{Args, known_for, load_findings, verif_dir};

pub struct LegResult {
    pub exit: i32,
    /// evidence fragment of this leg (None when the leg could not run)
    pub evidence: Option<Value>,
}

fn engine_dir() -> PathBuf {
    verif_dir().join("e5_hydrosim")
}

fn test_name(prop: &str) -> String {
    let p = prop.to_lowercase();
    format!("{p}::e2e_{p}")
}

fn cargo_test(prop: &str, envs: &[(&str, String)], preload: Option<&Path>) -> Command {
    let mut c = Command::new("cargo");
    c.current_dir(engine_dir());
    c.args(["test", "--release", "--offline", "-p", "e5_flows", "--lib", "--", &test_name(prop), "--exact", "--nocapture", "--test-threads", "1"]);
    c.env("CARGO_NET_OFFLINE", "true");
    c.env("VERIF_E5_PROP", prop);
    c.env("VERIF_DIR", verif_dir());
    c.env_remove("VERIF_REPLAY");
    c.env_remove("VERIF_E5_HASHES");
    c.env_remove("VERIF_E5_OUT");
    c.env_remove("VERIF_E5_SHARD");
    for (k, v) in envs {
        c.env(k, v);
    }
    if let Some(p) = preload {
        c.env("LD_PRELOAD", p);
    }
    c
}

fn tail(s: &str, n: usize) -> String {
    let lines: Vec<&str> = s.lines().collect();
    lines[lines.len().saturating_sub(n)..].join("\n")
}

fn build_tests() -> Result<(), String> {
    let out = Command::new("cargo")
        .current_dir(engine_dir())
        .args(["test", "--release", "--offline", "-p", "e5_flows", "--lib", "--no-run"])
        .env("CARGO_NET_OFFLINE", "true")
        .output()
        .map_err(|e| format!("cannot run cargo: {e}"))?;
    if !out.status.success() {
        return Err(format!("build of the e5_flows test crate failed:\n{}", tail(&String::from_utf8_lossy(&out.stderr), 40)));
    }
    Ok(())
}

fn run_capture(mut c: Command) -> Result<(bool, String, String), String> {
    let out = c.stdin(Stdio::null()).output().map_err(|e| format!("cannot run cargo test: {e}"))?;
    Ok((out.status.success(), String::from_utf8_lossy(&out.stdout).into_owned(), String::from_utf8_lossy(&out.stderr).into_owned()))
}

/// `panicked at <file>:<line>:<col>:` + message line, from the stderr of an aborted test process.
fn panic_site(stderr: &str) -> Option<(String, String)> {
    // `abort_assert!` of hydro_lang/src/sim/compiled.rs: an internal invariant of the simulator failed
    if let Some(l) = stderr.lines().find(|l| l.contains("Simulator internal error:")) {
        let msg = l[l.find("Simulator internal error:").unwrap()..].to_string();
        return Some(("/repo/hydro_lang/src/sim/compiled.rs:abort_assert".to_string(), msg));
    }
    let mut it = stderr.lines();
    while let Some(l) = it.next() {
        if let Some(pos) = l.find("panicked at ") {
            let loc = l[pos + "panicked at ".len()..].trim_end_matches(':').to_string();
            let msg = it.next().unwrap_or("").trim().to_string();
            return Some((loc, msg));
        }
    }
    None
}
fn site_in_sut(loc: &str) -> bool {
    // (panics of the repository's trybuild machinery are build errors, not crashes of the simulator)
    !(loc.contains("e5_hydrosim/") || loc.starts_with("flows/") || loc.starts_with("harness/") || loc.starts_with("src/") || loc.contains("compile/trybuild/"))
}
fn site_file(loc: &str) -> String {
    let f = loc.rsplit('/').next().unwrap_or(loc);
    f.split(':').next().unwrap_or(f).to_string()
}

/// Crash-marker file of a shard (rewritten before every run): on tmpfs when there is one, so that
/// it costs no disk I/O.
fn marker_path(out: &Path) -> String {
    let name = out.file_name().map(|f| f.to_string_lossy().into_owned()).unwrap_or_default();
    if Path::new("/dev/shm").is_dir() {
        format!("/dev/shm/verif-e5-{}-{name}.cur", std::process::id())
    } else {
        format!("{}.cur", out.display())
    }
}

fn hash_line(stdout: &str) -> Option<String> {
    stdout.lines().find_map(|l| l.find("HASH ").map(|p| l[p + 5..].trim().to_string()))
}

fn shim() -> Option<PathBuf> {
    let p = verif_dir().join("e7_seedsim").join("shim.so");
    p.exists().then_some(p)
}

/// Run the end-to-end leg of `prop`.
pub fn run(prop: &str, args: &Args) -> LegResult {
    let t0 = Instant::now();
    let fail2 = |msg: String| -> LegResult {
        eprintln!("HARNESS: {msg}");
        LegResult { exit: 2, evidence: None }
    };
    if let Err(e) = build_tests() {
        return fail2(e);
    }
    let seed = args.seed.to_string();
    let base: Vec<(&str, String)> = vec![("VERIF_TIER", args.tier.clone()), ("VERIF_SEED", seed.clone())];

    if let Some(path) = &args.replay {
        let mut envs = base.clone();
        envs.push(("VERIF_REPLAY", path.display().to_string()));
        return match run_capture(cargo_test(prop, &envs, None)) {
            Ok((ok, so, se)) => {
                print!("{}", so.lines().filter(|l| !l.starts_with("running ") && !l.starts_with("test ")).collect::<Vec<_>>().join("\n"));
                println!();
                let mut crash_line = None;
                if !ok {
                    // a panic inside the simulator dylib aborts the process (it cannot be caught)
                    match panic_site(&se) {
                        Some((loc, msg)) if site_in_sut(&loc) => {
                            let scn = std::fs::read_to_string(path).ok().and_then(|s| serde_json::from_str::<Value>(&s).ok()).map(|v| v["scenario"].as_str().unwrap_or("").to_string()).unwrap_or_default();
                            let l = format!("REPLAY-VIOLATION class=abort/{scn}/{} detail=process aborted by a panic at {loc}: {msg}", site_file(&loc));
                            println!("{l}");
                            crash_line = Some(l);
                        }
                        _ => return fail2(format!("replay test process failed:\n{}", tail(&se, 30))),
                    }
                }
                if let Some(l) = crash_line.as_deref().or_else(|| so.lines().find(|l| l.starts_with("REPLAY-VIOLATION class="))) {
                    let class = l.trim_start_matches("REPLAY-VIOLATION class=").split(" detail=").next().unwrap_or("").to_string();
                    let fs = load_findings();
                    if let Some(f) = known_for(&fs, prop, &class) {
                        println!("KNOWN-FINDING: property={prop} {}", f.what);
                        return LegResult { exit: 0, evidence: None };
                    }
                    println!("VIOLATION property={prop} replay={}", path.display());
                    LegResult { exit: 1, evidence: None }
                } else if so.contains("REPLAY-OK") {
                    LegResult { exit: 0, evidence: None }
                } else {
                    fail2(format!("replay produced neither REPLAY-VIOLATION nor REPLAY-OK:\n{}", tail(&so, 20)))
                }
            }
            Err(e) => fail2(e),
        };
    }

    // --- determinism self-test across processes: next to every shard process of the batch a second
    // process re-executes the first runs of that shard; the two event-log hashes must agree
    let st_n: u64 = if args.no_selftest { 0 } else if args.tier == "thorough" { 1000 } else { 150 };
    let mut selftest_note = String::from("skipped");
    // C40 has a single program that every shard process loads: build its simulator dylib once,
    // in one process, before the shards start (on a cold cache each of them would otherwise
    // rebuild it in turn)
    if prop == "C40" {
        let mut envs = base.clone();
        envs.push(("VERIF_E5_SHARD", "0/8".to_string()));
        envs.push(("VERIF_E5_RUNS", "1".to_string()));
        match run_capture(cargo_test(prop, &envs, None)) {
            Ok((true, _, _)) => {}
            Ok((false, so, se)) => {
                if !panic_site(&se).is_some_and(|(loc, _)| site_in_sut(&loc)) {
                    return fail2(format!("pre-warming process failed:\n{}\n{}", tail(&so, 10), tail(&se, 25)));
                }
            }
            Err(e) => return fail2(e),
        }
    }

    // --- the batch, in shard processes
    let k = args.threads.clamp(1, 8) as u64;
    let outdir = engine_dir().join("target").join("e2e-legs");
    let _ = std::fs::create_dir_all(&outdir);
    let mut hash_children = vec![];
    if st_n > 0 {
        // two of the shards get a second process (which ones rotates with the seed)
        let picks: BTreeSet<u64> = [0, args.seed % k].into_iter().collect();
        for i in picks {
            let mut envs = base.clone();
            envs.push(("VERIF_E5_SHARD", format!("{i}/{k}")));
            envs.push(("VERIF_E5_HASHES", st_n.to_string()));
            if let Some(r) = args.runs {
                envs.push(("VERIF_E5_RUNS", r.to_string()));
            }
            let mut c = cargo_test(prop, &envs, None);
            hash_children.push((i, c.stdin(Stdio::null()).stdout(Stdio::piped()).stderr(Stdio::piped()).spawn()));
        }
    }
    let mut legs = vec![];
    let mut crashes: Vec<Value> = vec![];
    let mut starts: Vec<u64> = vec![0; k as usize];
    let mut todo: Vec<u64> = (0..k).collect();
    let mut attempts = 0;
    while !todo.is_empty() {
        attempts += 1;
        let mut children = vec![];
        for &i in &todo {
            let out = outdir.join(format!("{prop}-{}-{i}.json", args.seed));
            let _ = std::fs::remove_file(&out);
            let _ = std::fs::remove_file(marker_path(&out));
            let mut envs = base.clone();
            envs.push(("VERIF_E5_SHARD", format!("{i}/{k}")));
            envs.push(("VERIF_E5_OUT", out.display().to_string()));
            envs.push(("VERIF_E5_START", starts[i as usize].to_string()));
            envs.push(("VERIF_E5_HASHN", st_n.to_string()));
            envs.push(("VERIF_E5_MARKER", marker_path(&out)));
            if let Some(r) = args.runs {
                envs.push(("VERIF_E5_RUNS", r.to_string()));
            }
            if prop == "C38" {
                if let Some(s) = shim() {
                    envs.push(("VERIF_E5_SHIM", s.display().to_string()));
                }
            }
            let mut c = cargo_test(prop, &envs, None);
            let child = c.stdin(Stdio::null()).stdout(Stdio::piped()).stderr(Stdio::piped()).spawn();
            children.push((i, out, child));
        }
        let mut again = vec![];
        for (i, out, child) in children {
            let o = match child.and_then(|c| c.wait_with_output()) {
                Ok(o) => o,
                Err(e) => return fail2(format!("shard {i}: {e}")),
            };
            let so = String::from_utf8_lossy(&o.stdout);
            let se = String::from_utf8_lossy(&o.stderr);
            if !o.status.success() {
                // aborted by a panic inside the simulator dylib? then the marker names the run
                let cur = std::fs::read_to_string(marker_path(&out)).unwrap_or_default();
                let f: Vec<&str> = cur.split_whitespace().collect();
                match (panic_site(&se), f.len() == 3) {
                    (Some((loc, msg)), true) if site_in_sut(&loc) => {
                        let (r, rseed, scn) = (f[0].parse::<u64>().unwrap_or(0), f[1].parse::<u64>().unwrap_or(0), f[2].to_string());
                        let class = format!("abort/{scn}/{}", site_file(&loc));
                        let dir = verif_dir().join("replays");
                        let _ = std::fs::create_dir_all(&dir);
                        let path = dir.join(format!("{prop}-{}-{r}.json", args.seed));
                        let j = json!({
                            "property": prop, "engine": "e5_hydrosim", "leg": "e2e", "scenario": scn,
                            "seed": args.seed, "run": r, "run_seed": rseed, "repo_head": simcore::runner::repo_head(),
                            "violation": class, "detail": format!("the test process was aborted by a panic at {loc}: {msg} (a panic raised inside the simulator dylib cannot be caught)"),
                            "bytes_from_seed": true, "bytes_hex": "",
                        });
                        if std::fs::write(&path, serde_json::to_string_pretty(&j).unwrap()).is_err() {
                            return fail2("cannot write replay file".into());
                        }
                        crashes.push(json!({"class": class, "run": r, "scenario": scn, "detail": j["detail"], "replay": path}));
                        starts[i as usize] = r + 1;
                        if attempts < 2 {
                            again.push(i);
                        }
                        continue;
                    }
                    _ => {
                        return fail2(format!("shard {i}: the test process failed (not a violation: violations are data in the leg result):\n{}\n{}", tail(&so, 25), tail(&se, 40)));
                    }
                }
            }
            if let Some(l) = so.lines().find_map(|l| l.find("e2e-leg ").map(|p| &l[p..])) {
                if i == 0 {
                    println!("{l}");
                }
            }
            let Ok(s) = std::fs::read_to_string(&out) else {
                return fail2(format!("shard {i} wrote no result file {}:\n{}", out.display(), tail(&so, 20)));
            };
            let Ok(v) = serde_json::from_str::<Value>(&s) else {
                return fail2(format!("shard {i} wrote an unparsable result file"));
            };
            legs.push(v);
        }
        todo = again;
    }
    if st_n > 0 {
        let mut compared = 0;
        let mut aborted = None;
        let mut mismatch = vec![];
        for (i, child) in hash_children {
            let out = match child.and_then(|c| c.wait_with_output()) {
                Ok(o) => o,
                Err(e) => return fail2(format!("self-test process {i}: {e}")),
            };
            let so = String::from_utf8_lossy(&out.stdout);
            let se = String::from_utf8_lossy(&out.stderr);
            let Some(h) = hash_line(&so).filter(|_| out.status.success()) else {
                match panic_site(&se) {
                    Some((loc, _)) if site_in_sut(&loc) => {
                        aborted = Some(loc);
                        continue;
                    }
                    _ => return fail2(format!("self-test process {i} failed:\n{}\n{}", tail(&so, 15), tail(&se, 25))),
                }
            };
            // the batch process of the same shard (only comparable when it was not restarted)
            let leg = legs.iter().find(|l| l["shard"][0].as_u64() == Some(i));
            if let Some(l) = leg {
                if starts[i as usize] == 0 {
                    compared += 1;
                    if l["selftest_hash"].as_str() != Some(h.as_str()) {
                        mismatch.push(format!("shard {i}: batch process {:?} vs second process {h:?}", l["selftest_hash"].as_str().unwrap_or("")));
                    }
                }
            }
        }
        if !mismatch.is_empty() {
            if prop == "C38" {
                selftest_note = format!("MISMATCH {mismatch:?} (for C38 this is the property itself; see its cross-process scenario)");
            } else {
                return fail2(format!("determinism self-test failed across processes: {mismatch:?}"));
            }
        } else if let Some(loc) = aborted {
            selftest_note = format!("partly not completed: a self-test process was aborted by a panic at {loc} (a crash of the code under test; see the batch); {compared} shard pairs identical");
        } else {
            selftest_note = format!("first {st_n} runs of {compared} of the {k} shards executed in two fresh processes: identical event-log hashes");
        }
        println!("selftest(e2e): {selftest_note}");
    }
    if legs.is_empty() {
        // every shard crashed repeatedly: still report the crash classes found
        legs.push(json!({"violations": crashes, "rule": "", "samples": [], "required_probes": []}));
    } else if !crashes.is_empty() {
        legs.push(json!({"violations": crashes}));
    }

    // --- merge
    let sum = |key: &str| -> u64 { legs.iter().map(|l| l[key].as_u64().unwrap_or(0)).sum() };
    let mut distinct: BTreeSet<u64> = BTreeSet::new();
    let mut probes: BTreeMap<String, u64> = BTreeMap::new();
    let mut per_scenario: BTreeMap<String, u64> = BTreeMap::new();
    let mut viols: BTreeMap<String, (u64, Value)> = BTreeMap::new();
    for l in &legs {
        for d in l["distinct"].as_array().into_iter().flatten() {
            if let Some(x) = d.as_u64() {
                distinct.insert(x);
            }
        }
        for (k, v) in l["probes"].as_object().into_iter().flatten() {
            *probes.entry(k.clone()).or_default() += v.as_u64().unwrap_or(0);
        }
        for (k, v) in l["runs_per_scenario"].as_object().into_iter().flatten() {
            *per_scenario.entry(k.clone()).or_default() += v.as_u64().unwrap_or(0);
        }
        for v in l["violations"].as_array().into_iter().flatten() {
            let class = v["class"].as_str().unwrap_or("").to_string();
            let run = v["run"].as_u64().unwrap_or(u64::MAX);
            let e = viols.entry(class).or_insert((run, v.clone()));
            if run < e.0 {
                *e = (run, v.clone());
            }
        }
    }
    let first = &legs[0];
    let evaluations = sum("evaluations");
    let batch_wall = legs.iter().map(|l| l["batch_wall_s"].as_f64().unwrap_or(0.0)).fold(0.0, f64::max);

    // --- violations: fresh-process confirmation from the replay file
    let findings = load_findings();
    let mut exit = 0;
    let mut reported = 0u64;
    let mut viol_json = vec![];
    for (class, (_run, v)) in viols.iter().take(6) {
        let path = v["replay"].as_str().unwrap_or("").to_string();
        let mut envs = base.clone();
        envs.push(("VERIF_REPLAY", path.clone()));
        let confirmed = match run_capture(cargo_test(prop, &envs, None)) {
            Ok((ok, so, se)) => {
                if class.starts_with("abort/") {
                    // must abort again, at a panic site in the same file
                    !ok && panic_site(&se).is_some_and(|(loc, _)| class.ends_with(&format!("/{}", site_file(&loc))))
                } else {
                    ok && so.contains(&format!("REPLAY-VIOLATION class={class}"))
                }
            }
            Err(_) => false,
        };
        if !confirmed {
            return fail2(format!("violation {class} did not reproduce from {path} in a fresh process"));
        }
        if let Some(f) = known_for(&findings, prop, class) {
            println!("KNOWN-FINDING: property={prop} {}", f.what);
            viol_json.push(json!({"class": class, "known_finding": true, "replay": path, "detail": v["detail"]}));
            continue;
        }
        println!("violation class={class} run={} scenario={} : {}", v["run"], v["scenario"].as_str().unwrap_or(""), v["detail"].as_str().unwrap_or(""));
        println!("VIOLATION property={prop} replay={path}");
        viol_json.push(json!({"class": class, "known_finding": false, "replay": path, "detail": v["detail"]}));
        reported += 1;
        exit = 1;
    }

    let mut missing = vec![];
    for p in first["required_probes"].as_array().into_iter().flatten() {
        let p = p.as_str().unwrap_or("");
        if probes.get(p).copied().unwrap_or(0) == 0 {
            missing.push(p.to_string());
        }
    }
    let per_hour = if batch_wall > 0.0 { evaluations as f64 / batch_wall * 3600.0 } else { 0.0 };
    let ev = json!({
        "leg": "e2e",
        "evaluations": evaluations,
        "distinct_nontrivial": distinct.len(),
        "distinct_is_lower_bound": legs.iter().any(|l| l["distinct"].as_array().is_some_and(|a| a.len() >= 1_000_000)),
        "nontrivial_runs": sum("nontrivial_runs"),
        "discarded_runs": sum("discarded_runs"),
        "rule": first["rule"],
        "samples": first["samples"],
        "runs_per_hour": per_hour as u64,
        "simulated_time": {"unit": first["time_unit"], "total": sum("sim_time")},
        "reach_probes": probes,
        "runs_per_scenario": per_scenario,
        "real_components": first["real"],
        "stub_components": first["stubs"],
        "assumptions": first["assumptions"],
        "determinism_selftest": selftest_note,
        "in_process_selftest_runs": sum("selftest_runs"),
        "shard_processes": k,
        "violation_details": viol_json,
        "violations": reported,
        "wall_s": t0.elapsed().as_secs_f64(),
        "repo_head": first["repo_head"],
    });
    println!(
        "done(e2e) property={prop} runs={evaluations} nontrivial_distinct={} discarded={} probes={:?} wall={:.1}s violations={reported}",
        distinct.len(),
        sum("discarded_runs"),
        ev["reach_probes"],
        t0.elapsed().as_secs_f64()
    );
    if exit == 0 && !missing.is_empty() {
        eprintln!("HARNESS: reach probes stuck at zero: {missing:?} — workload no longer reaches what it claims");
        return LegResult { exit: 2, evidence: Some(ev) };
    }
    LegResult { exit, evidence: Some(ev) }
}

/// Compose and write `/verif/evidence/<ID>.json` from the legs that ran.
pub fn write_evidence(prop: &str, args: &Args, hook: Option<Value>, e2e: Option<Value>, wall: f64) -> Result<(), String> {
    let mut cov = serde_json::Map::new();
    let mut assumptions: Vec<Value> = vec![];
    let mut evaluations = 0u64;
    let mut distinct = 0u64;
    let mut samples: Vec<Value> = vec![];
    let mut rules = vec![];
    let mut violations = 0u64;
    if let Some(h) = &hook {
        let c = &h["coverage"];
        evaluations += c["evaluations"].as_u64().unwrap_or(0);
        distinct += c["distinct_nontrivial"].as_u64().unwrap_or(0);
        samples.extend(c["samples"].as_array().cloned().unwrap_or_default());
        rules.push(format!("[hook level] {}", c["rule"].as_str().unwrap_or("")));
        assumptions.extend(h["assumptions"].as_array().cloned().unwrap_or_default());
        violations += h["violations"].as_u64().unwrap_or(0);
        cov.insert("hook_leg".into(), c.clone());
    }
    if let Some(e) = &e2e {
        evaluations += e["evaluations"].as_u64().unwrap_or(0);
        distinct += e["distinct_nontrivial"].as_u64().unwrap_or(0);
        samples.extend(e["samples"].as_array().cloned().unwrap_or_default());
        rules.push(format!("[end to end] {}", e["rule"].as_str().unwrap_or("")));
        assumptions.extend(e["assumptions"].as_array().cloned().unwrap_or_default());
        violations += e["violations"].as_u64().unwrap_or(0);
        cov.insert("e2e_leg".into(), e.clone());
    }
    cov.insert("evaluations".into(), json!(evaluations));
    cov.insert("distinct_nontrivial".into(), json!(distinct));
    cov.insert("rule".into(), json!(rules.join(" || ")));
    cov.insert("samples".into(), json!(samples));
    cov.insert("exhaustive".into(), json!(false));
    cov.insert("engine".into(), json!("e5_hydrosim"));
    let ev = json!({
        "property_id": prop,
        "tier": args.tier,
        "seed": args.seed,
        "level": "exploration",
        "coverage": Value::Object(cov),
        "assumptions": assumptions,
        "wall_s": wall,
        "violations": violations,
    });
    let dir = verif_dir().join("evidence");
    let _ = std::fs::create_dir_all(&dir);
    std::fs::write(dir.join(format!("{prop}.json")), serde_json::to_string_pretty(&ev).unwrap()).map_err(|e| format!("cannot write evidence: {e}"))
}
