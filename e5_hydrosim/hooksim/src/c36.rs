//! C36 hook level — the repository simulator's release decisions are sound.
//!
//! Real code: every hook type of `hydro_lang::sim::runtime` (`autonomous_decision`,
//! `release_decision`, `current_decision`, `can_make_nontrivial_decision`, `is_ready`).
//! Stub: the decision source (`SimDriver` over `simcore::Sim`), the producer of pending items
//! (what the top-level async DFIR does: `buffered.push_back(v)` / `entry(k).or_default()
//! .push_back(v)`), the consumer of the output channel, and the *calling protocol* of
//! `compiled.rs::{SimTick::can_run, SimObservation::can_run, run_hooks}` (private there, mirrored
//! here line by line; the real scheduler is exercised by the end-to-end leg).

use bolero::generator::bolero_generator::driver::object::{Borrowed, DynDriver};
use hydro_lang::sim::runtime::SimInlineHook;
use simcore::{Outcome, Sim, Violation, fnv_str};

use crate::driver::SimDriver;
use crate::probe::{Item, Key, Kind, Probe, Released};

/// `compiled.rs::hook_can_release`
fn hook_can_release(p: &Probe) -> bool {
    p.hook.current_decision().unwrap_or(false) || p.hook.can_make_nontrivial_decision()
}

/// `SimTick::can_run` (for an observation — a single top-level hook — `is_ready` is the default
/// `true`, so the same predicate is `SimObservation::can_run`).
pub fn can_run(probes: &[Probe]) -> bool {
    probes.iter().all(|p| p.hook.is_ready()) && probes.iter().any(hook_can_release)
}

pub struct TickResult {
    pub outputs: Vec<Released>,
    pub nontrivial: bool,
    pub forced_any: bool,
    pub first_pass_trivial: u32,
}

/// Mirror of `compiled.rs::run_hooks`, with the oracle applied to every released batch.
pub fn run_hooks(probes: &mut [Probe], drv: &mut dyn DynDriver, mut log: Option<&mut String>) -> Result<TickResult, Violation> {
    let n = probes.len();
    let mut remaining = n;
    let mut made = false;
    let mut returned: Vec<Option<bool>> = vec![None; n];
    let mut forced = vec![false; n];
    let mut first_pass_trivial = 0;
    for (i, p) in probes.iter_mut().enumerate() {
        if let Some(nt) = p.hook.current_decision() {
            made |= nt;
            remaining = remaining.wrapping_sub(1);
        } else if !p.hook.can_make_nontrivial_decision() {
            returned[i] = Some(p.hook.autonomous_decision(&mut Borrowed(&mut *drv), false));
            remaining = remaining.wrapping_sub(1);
            first_pass_trivial += 1;
        }
    }
    let mut outputs = Vec::with_capacity(n);
    let mut tick_nontrivial = false;
    let mut forced_any = false;
    for (i, p) in probes.iter_mut().enumerate() {
        if p.hook.current_decision().is_none() {
            let f = !made && remaining == 1;
            let r = p.hook.autonomous_decision(&mut Borrowed(&mut *drv), f);
            made |= r;
            remaining = remaining.wrapping_sub(1);
            returned[i] = Some(r);
            forced[i] = f;
            forced_any |= f;
        }
        p.hook.release_decision(log.as_deref_mut().map(|w| w as &mut dyn std::fmt::Write));
        let out = p.take_output();
        let Some(r) = returned[i] else {
            // a decision that was present before run_hooks started: never produced by this harness
            return Err(Violation::new("HARNESS/manual_decision", "unexpected pre-existing decision"));
        };
        tick_nontrivial |= p.check(&out, r, forced[i])?;
        outputs.push(out);
    }
    Ok(TickResult { outputs, nontrivial: tick_nontrivial, forced_any, first_pass_trivial })
}

struct Arrivals {
    next_id: Item,
    nkeys: u64,
    per_step_max: u64,
    budget: Vec<u64>,
}
impl Arrivals {
    fn step(&mut self, probes: &mut [Probe], sim: &mut Sim) -> u64 {
        let mut total = 0;
        for (i, p) in probes.iter_mut().enumerate() {
            let max = self.per_step_max.min(self.budget[i]);
            let n = sim.choose("arrivals", 0, max);
            for _ in 0..n {
                let key = if p.kind.keyed() { sim.choose("key", 0, self.nkeys - 1) as Key } else { 0 };
                let side = if p.kind.two_inputs() { sim.choose("side", 0, 1) as usize } else { 0 };
                p.arrive(key, self.next_id, side);
                self.next_id += 1;
            }
            self.budget[i] -= n;
            total += n;
        }
        total
    }
    fn exhausted(&self) -> bool {
        self.budget.iter().all(|b| *b == 0)
    }
}

fn note_probes(sim: &mut Sim, probes: &[Probe], res: &TickResult, had_pending: &[bool]) {
    if res.forced_any {
        sim.probe("forced_nontrivial_decision");
    }
    if res.first_pass_trivial > 0 {
        sim.probe("trivial_first_pass_decision");
    }
    for ((p, out), had) in probes.iter().zip(&res.outputs).zip(had_pending) {
        if out.is_empty() && *had {
            sim.probe("released_nothing_while_pending");
        }
        if !out.is_empty() && p.model_has_new() {
            sim.probe("partial_release_left_items_pending");
        }
        match p.kind {
            Kind::Singleton | Kind::KeyedSingleton => {
                if *had && !out.is_empty() {
                    sim.probe("snapshot_released_with_newer_pending");
                }
            }
            _ => {}
        }
    }
}

fn event_for(sim: &mut Sim, step: u64, res: &TickResult) {
    let h = fnv_str(&format!("{:?}", res.outputs));
    sim.event(h ^ step, || format!("tick {step}: released {:?} nontrivial={}", res.outputs, res.nontrivial));
}

fn run_group(sim: &mut Sim, kinds: Vec<Kind>, name: &'static str) -> Outcome {
    let nkeys = sim.choose("knob_nkeys", 1, 3);
    let per_step_max = sim.choose("knob_arrivals_per_step", 1, 3);
    let budget_each = sim.choose("knob_items_per_hook", 1, 6);
    let with_log = sim.flip("knob_log", 1, 4);
    let max_steps = sim.choose("knob_steps", 3, 12);
    let skip_num = sim.choose("knob_skip_tick_pct", 0, 60);
    let mut probes: Vec<Probe> = kinds.iter().map(|k| Probe::new(*k)).collect();
    let mut arr = Arrivals { next_id: 1, nkeys, per_step_max, budget: vec![budget_each; probes.len()] };
    // a fold's output singleton always starts with its initial value
    for p in probes.iter_mut().filter(|p| p.kind == Kind::Passthrough) {
        p.arrive(0, arr.next_id, 0);
        arr.next_id += 1;
    }
    sim.event(fnv_str(&format!("{kinds:?}")), || format!("{name}: hooks {kinds:?} nkeys={nkeys} items/hook={budget_each}"));
    let mut log = String::new();
    let mut ticks = 0u64;
    let mut released_any = false;
    let mut drv = SimDriver::new(sim);
    let mut step = 0u64;
    loop {
        step += 1;
        let draining = step > max_steps || arr.exhausted();
        if !draining {
            let n = arr.step(&mut probes, drv.sim);
            drv.sim.event(n, || format!("step {step}: {n} arrivals"));
        }
        // invariant outside decisions: buffers hold exactly enqueued-minus-released
        for p in &probes {
            if let Err(v) = p.check_pending() {
                return Outcome::fail(v, ticks);
            }
        }
        if !can_run(&probes) {
            if draining {
                break;
            }
            continue;
        }
        // the scheduler may also pick something else first: skip this tick sometimes
        if !draining && drv.sim.flip("skip_tick", skip_num, 100) {
            continue;
        }
        let had: Vec<bool> = probes.iter().map(|p| p.model_has_new()).collect();
        let res = match run_hooks(&mut probes, &mut drv, if with_log { Some(&mut log) } else { None }) {
            Ok(r) => r,
            Err(v) => return Outcome::fail(v, ticks),
        };
        ticks += 1;
        event_for(drv.sim, step, &res);
        note_probes(drv.sim, &probes, &res, &had);
        if !res.nontrivial {
            return Outcome::fail(
                Violation::new(format!("{name}/tick_released_nothing_new"), format!("a scheduled tick/observation over {kinds:?} released nothing new: {:?}", res.outputs)),
                ticks,
            );
        }
        released_any |= res.outputs.iter().any(|o| !o.is_empty());
        if ticks > 200 {
            return Outcome::fail(Violation::new("HARNESS/no_termination", "more than 200 ticks for <= 18 items"), ticks);
        }
        log.clear();
    }
    // quiescent: if every hook is ready, nothing new may be left that the hooks refuse to release
    if probes.iter().all(|p| p.hook.is_ready()) {
        for p in &probes {
            if p.model_has_new() {
                return Outcome::fail(
                    Violation::new(format!("{}/pending_never_releasable", p.kind.name()), format!("hook reports no releasable input but the model still has pending data: {}", p.pending_fingerprint())),
                    ticks,
                );
            }
        }
    } else {
        drv.sim.probe("tick_blocked_on_unready_singleton");
    }
    let nonbenign = drv.nonbenign;
    let st = fnv_str(&probes.iter().map(|p| p.pending_fingerprint()).collect::<Vec<_>>().join("|"));
    sim.state(st);
    if with_log {
        sim.probe("log_writer_enabled");
    }
    Outcome::ok(released_any && nonbenign > 0, ticks)
}

/// A tick with 1-3 batch hooks of seeded kinds.
pub fn run_tick(sim: &mut Sim) -> Outcome {
    let n = sim.choose("knob_hooks", 1, 3);
    let mut kinds = vec![];
    for _ in 0..n {
        kinds.push(*sim.pick("knob_kind", &Kind::TICK));
    }
    run_group(sim, kinds, "tick")
}

/// A tick with a batch hook and a `PassthroughSingletonHook` (snapshot of a top-level fold over an
/// unordered stream): the shape that exposed finding #1 (`release_decision` panicked when the fold
/// had produced no new version since the last tick; repaired in /repo by 1bedb80806a).
pub fn run_passthrough_tick(sim: &mut Sim) -> Outcome {
    run_group(sim, vec![Kind::Passthrough, Kind::StreamTotal], "passthrough_tick")
}

/// An observation: one top-level hook, always forced when picked.
pub fn run_observation(sim: &mut Sim) -> Outcome {
    let kind = *sim.pick("knob_kind", &Kind::TOP);
    run_group(sim, vec![kind], "observation")
}

// ---------------------------------------------------------------------------------------------
// Inline (in-tick) ordering hooks: they permute one complete batch.

use std::cell::RefCell;
use std::collections::BTreeMap;
use std::rc::Rc;

use dfir_rs::util::unsync::mpsc::unbounded;
use hydro_lang::sim::runtime::{KeyedMergeOrderedHook, KeyedStreamOrderHook, MergeOrderedHook, PartiallyOrderedStreamHook, StreamOrderHook};

use crate::probe::drain;

const LOC: (&str, &str, &str) = ("e5_hydrosim/c36.rs:1:1", "    s.assume_ordering(nondet!())", "      ");
fn dbg_item(v: &Item) -> Option<String> {
    Some(format!("{v}"))
}
fn dbg_key(v: &Key) -> Option<String> {
    Some(format!("k{v}"))
}
fn dbg_kv(v: &(Key, Item)) -> Option<String> {
    Some(format!("{v:?}"))
}

fn per_key(v: &[(Key, Item)]) -> BTreeMap<Key, Vec<Item>> {
    let mut m: BTreeMap<Key, Vec<Item>> = BTreeMap::new();
    for (k, x) in v {
        m.entry(*k).or_default().push(*x);
    }
    m
}
fn sorted<T: Ord + Clone>(v: &[T]) -> Vec<T> {
    let mut v = v.to_vec();
    v.sort();
    v
}
fn is_subsequence<T: PartialEq>(sub: &[T], sup: &[T]) -> bool {
    let mut it = sup.iter();
    sub.iter().all(|x| it.any(|y| y == x))
}

fn drive_inline(h: &mut dyn SimInlineHook, drv: &mut dyn DynDriver, log: Option<&mut String>) -> Result<(), Violation> {
    if !h.pending_decision() {
        return Err(Violation::new("inline/no_pending_decision", "hook reports no pending decision although its input batch was delivered"));
    }
    if !h.has_decision() {
        h.autonomous_decision(&mut Borrowed(&mut *drv));
    }
    h.release_decision(log.map(|w| w as &mut dyn std::fmt::Write));
    Ok(())
}

pub fn run_inline(sim: &mut Sim) -> Outcome {
    let which = sim.choose("knob_inline_kind", 0, 4);
    let nkeys = sim.choose("knob_nkeys", 1, 3);
    let n1 = sim.choose("knob_len_first", 0, 6);
    let n2 = sim.choose("knob_len_second", 0, 6);
    let with_log = sim.flip("knob_log", 1, 4);
    let mut next = 1u32;
    let mut mk_items = |n: u64| -> Vec<Item> {
        (0..n)
            .map(|_| {
                next += 1;
                next
            })
            .collect()
    };
    let a_items = mk_items(n1);
    let b_items = mk_items(n2);
    let a_keyed: Vec<(Key, Item)> = a_items.iter().map(|x| (sim.choose("key", 0, nkeys - 1) as Key, *x)).collect();
    let b_keyed: Vec<(Key, Item)> = b_items.iter().map(|x| (sim.choose("key", 0, nkeys - 1) as Key, *x)).collect();
    sim.event(which, || format!("inline kind {which}: first {a_keyed:?} second {b_keyed:?}"));
    let mut log = String::new();
    let lg = if with_log { Some(&mut log) } else { None };
    let mut drv = SimDriver::new(sim);
    let fail = |class: &str, detail: String| Outcome::fail(Violation::new(format!("inline/{class}"), detail), 1);
    let name;
    match which {
        0 => {
            name = "stream_order";
            let inp = Rc::new(RefCell::new(Some(a_items.clone())));
            let (tx, mut rx) = unbounded();
            let mut h = StreamOrderHook::new(inp, tx, LOC, dbg_item);
            if let Err(v) = drive_inline(&mut h, &mut drv, lg) {
                return Outcome::fail(v, 1);
            }
            let out: Vec<Vec<Item>> = drain(&mut rx);
            if out.len() != 1 || sorted(&out[0]) != sorted(&a_items) {
                return fail("stream_order/not_a_permutation", format!("input {a_items:?} output {out:?}"));
            }
            if out[0] != a_items {
                drv.sim.probe("inline_order_changed");
            }
        }
        1 => {
            name = "merge_ordered";
            let (tx, mut rx) = unbounded();
            let mut h = MergeOrderedHook::new(Rc::new(RefCell::new(Some(a_items.clone()))), Rc::new(RefCell::new(Some(b_items.clone()))), tx, LOC, dbg_item);
            if let Err(v) = drive_inline(&mut h, &mut drv, lg) {
                return Outcome::fail(v, 1);
            }
            let out: Vec<Vec<Item>> = drain(&mut rx);
            let all: Vec<Item> = a_items.iter().chain(&b_items).copied().collect();
            if out.len() != 1 || sorted(&out[0]) != sorted(&all) {
                return fail("merge_ordered/not_a_permutation", format!("inputs {a_items:?} {b_items:?} output {out:?}"));
            }
            if !is_subsequence(&a_items, &out[0]) || !is_subsequence(&b_items, &out[0]) {
                return fail("merge_ordered/input_order_broken", format!("inputs {a_items:?} {b_items:?} output {out:?}"));
            }
            if out[0] != all {
                drv.sim.probe("inline_order_changed");
            }
        }
        2 => {
            name = "keyed_stream_order";
            let (tx, mut rx) = unbounded();
            let mut h = KeyedStreamOrderHook::new(Rc::new(RefCell::new(Some(a_keyed.clone()))), tx, LOC, dbg_key, dbg_item);
            if let Err(v) = drive_inline(&mut h, &mut drv, lg) {
                return Outcome::fail(v, 1);
            }
            let out: Vec<Vec<(Key, Item)>> = drain(&mut rx);
            if out.len() != 1 || sorted(&out[0]) != sorted(&a_keyed) {
                return fail("keyed_stream_order/not_a_permutation", format!("input {a_keyed:?} output {out:?}"));
            }
            if per_key(&out[0]) != per_key(&a_keyed) {
                drv.sim.probe("inline_order_changed");
            }
        }
        3 => {
            name = "partially_ordered";
            let (tx, mut rx) = unbounded();
            let mut h = PartiallyOrderedStreamHook::new(Rc::new(RefCell::new(Some(a_keyed.clone()))), tx, LOC, dbg_key, dbg_item);
            if let Err(v) = drive_inline(&mut h, &mut drv, lg) {
                return Outcome::fail(v, 1);
            }
            let out: Vec<Vec<(Key, Item)>> = drain(&mut rx);
            if out.len() != 1 || sorted(&out[0]) != sorted(&a_keyed) {
                return fail("partially_ordered/not_a_permutation", format!("input {a_keyed:?} output {out:?}"));
            }
            if per_key(&out[0]) != per_key(&a_keyed) {
                return fail("partially_ordered/key_order_broken", format!("input {a_keyed:?} output {out:?}"));
            }
            if out[0] != a_keyed {
                drv.sim.probe("inline_order_changed");
            }
        }
        _ => {
            name = "keyed_merge_ordered";
            let (tx, mut rx) = unbounded();
            let mut h = KeyedMergeOrderedHook::new(Rc::new(RefCell::new(Some(a_keyed.clone()))), Rc::new(RefCell::new(Some(b_keyed.clone()))), tx, LOC, dbg_kv);
            if let Err(v) = drive_inline(&mut h, &mut drv, lg) {
                return Outcome::fail(v, 1);
            }
            let out: Vec<Vec<(Key, Item)>> = drain(&mut rx);
            let all: Vec<(Key, Item)> = a_keyed.iter().chain(&b_keyed).copied().collect();
            if out.len() != 1 || sorted(&out[0]) != sorted(&all) {
                return fail("keyed_merge_ordered/not_a_permutation", format!("inputs {a_keyed:?} {b_keyed:?} output {out:?}"));
            }
            let o = per_key(&out[0]);
            for (k, vs) in per_key(&a_keyed).iter().chain(per_key(&b_keyed).iter()) {
                if !is_subsequence(vs, o.get(k).map(|v| &v[..]).unwrap_or(&[])) {
                    return fail("keyed_merge_ordered/input_order_broken", format!("inputs {a_keyed:?} {b_keyed:?} output {out:?}"));
                }
            }
            if per_key(&out[0]) != per_key(&all) {
                drv.sim.probe("inline_order_changed");
            }
        }
    }
    let nonbenign = drv.nonbenign;
    if with_log {
        sim.probe("log_writer_enabled");
    }
    sim.event(fnv_str(name), || format!("{name}: ok"));
    Outcome::ok(n1 + n2 > 0 && nonbenign > 0, 1)
}
