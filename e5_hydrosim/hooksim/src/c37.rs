//! C37 hook level — the repository's *exhaustive* mode reaches every distinct combination of
//! release decisions.
//!
//! For a small configuration (1-2 hooks forming one tick, or one top-level hook forming an
//! observation; <=4 pending items; 1-3 consecutive ticks) the real hooks are enumerated with
//! bolero's real exhaustive driver (`driver::exhaustive::Driver` through the `Object` adaptor, the
//! same adaptor `CompiledSim::exhaustive` ends up with) and the set S of outcome tuples is
//! collected. Then, seeded, legal outcomes are drawn from an *independent* description of the
//! decision space (any prefix length; any subset; any snapshot version >= the last one; at least
//! one hook releases something new per tick) and each must be a member of S. The sampled reference
//! schedules are the schedules searched; S is data (cached per configuration).

use std::collections::{BTreeMap, BTreeSet};
use std::sync::{Arc, Mutex, OnceLock};

use bolero::generator::bolero_generator::driver::exhaustive::Driver as ExhaustiveDriver;
use bolero::generator::bolero_generator::driver::object::Object;
use simcore::{Outcome, Sim, Violation, fnv_str};

use crate::c36::{can_run, run_hooks};
use crate::probe::{Item, Key, Kind, Probe, Released};

/// A configuration: which hooks, what arrives before each tick.
#[derive(Clone, Debug, PartialEq, Eq, PartialOrd, Ord)]
struct Config {
    kinds: Vec<Kind>,
    /// arrivals[t][h] = items (key, side) enqueued into hook h before tick t; item ids are
    /// assigned in this order starting from 1
    arrivals: Vec<Vec<Vec<(Key, u8)>>>,
}

/// One tick's outcome: per hook what was released, normalised to what the hook's type promises
/// (`NoOrder` batches are order-insensitive by type => compared as sets).
type TickOutcome = Vec<Released>;
type OutcomeTuple = Vec<TickOutcome>;

fn order_matters(kind: Kind) -> bool {
    // TopFold deliberately permutes the batch it hands to the fold: order is part of the outcome
    matches!(kind, Kind::StreamTotal | Kind::KeyedTotal | Kind::TopFold | Kind::TopPartial | Kind::TopMerge | Kind::TopKeyedMerge)
}

fn normalise(kind: Kind, r: Released) -> Released {
    match r {
        Released::Items(mut v) => {
            if !order_matters(kind) {
                v.sort();
            }
            Released::Items(v)
        }
        Released::Keyed(v) => {
            // order across keys is never promised; within a key only for ordered kinds
            let mut m: BTreeMap<Key, Vec<Item>> = BTreeMap::new();
            for (k, x) in v {
                m.entry(k).or_default().push(x);
            }
            let mut out = vec![];
            for (k, mut xs) in m {
                if !order_matters(kind) {
                    xs.sort();
                }
                out.extend(xs.into_iter().map(|x| (k, x)));
            }
            Released::Keyed(out)
        }
    }
}

fn feed(cfg: &Config, probes: &mut [Probe], t: usize, next_id: &mut Item) {
    for (h, items) in cfg.arrivals[t].iter().enumerate() {
        for (k, side) in items {
            probes[h].arrive(*k, *next_id, *side as usize);
            *next_id += 1;
        }
    }
}

/// Enumerate the configuration with the repository's hooks under bolero's exhaustive driver.
fn enumerate(cfg: &Config) -> Result<(BTreeSet<OutcomeTuple>, u64), Violation> {
    let mut set = BTreeSet::new();
    let mut execs = 0u64;
    let mut drv = Object(ExhaustiveDriver::default());
    while drv.0.step().is_continue() {
        execs += 1;
        if execs > 2_000_000 {
            return Err(Violation::new("HARNESS/exhaustive_too_large", format!("{cfg:?}")));
        }
        let mut probes: Vec<Probe> = cfg.kinds.iter().map(|k| Probe::new(*k)).collect();
        let mut next_id = 1;
        let mut outcome: OutcomeTuple = vec![];
        for t in 0..cfg.arrivals.len() {
            feed(cfg, &mut probes, t, &mut next_id);
            if !can_run(&probes) {
                outcome.push(vec![]);
                continue;
            }
            let res = run_hooks(&mut probes, &mut drv, None)?;
            if !res.nontrivial {
                return Err(Violation::new("exhaustive/tick_released_nothing_new", format!("{cfg:?}: {:?}", res.outputs)));
            }
            outcome.push(res.outputs.into_iter().zip(&cfg.kinds).map(|(r, k)| normalise(*k, r)).collect());
        }
        set.insert(outcome);
    }
    Ok((set, execs))
}

type Cache = Mutex<BTreeMap<Config, Arc<Result<(BTreeSet<OutcomeTuple>, u64), Violation>>>>;
static CACHE: OnceLock<Cache> = OnceLock::new();

fn outcomes_of(cfg: &Config) -> Arc<Result<(BTreeSet<OutcomeTuple>, u64), Violation>> {
    let cache = CACHE.get_or_init(|| Mutex::new(BTreeMap::new()));
    if let Some(x) = cache.lock().unwrap().get(cfg) {
        return x.clone();
    }
    // computed outside the lock; a racing thread computes the same (deterministic) value
    let v = Arc::new(enumerate(cfg));
    let mut g = cache.lock().unwrap();
    if g.len() > 20_000 {
        g.clear();
    }
    g.entry(cfg.clone()).or_insert(v).clone()
}

// ---------------------------------------------------------------------------------------------
// Independent reference description of the decision space

#[derive(Clone, Debug)]
enum RefState {
    /// pending per input side (streams) in enqueue order
    Stream([Vec<Item>; 2]),
    Keyed([BTreeMap<Key, Vec<Item>>; 2]),
    Snap { versions: Vec<Item>, last: Option<usize> },
    KeyedSnap { versions: BTreeMap<Key, Vec<Item>>, last: BTreeMap<Key, usize> },
}

fn ref_new(kind: Kind) -> RefState {
    match kind {
        Kind::Singleton | Kind::Passthrough => RefState::Snap { versions: vec![], last: None },
        Kind::KeyedSingleton => RefState::KeyedSnap { versions: BTreeMap::new(), last: BTreeMap::new() },
        k if k.keyed() => RefState::Keyed(Default::default()),
        _ => RefState::Stream(Default::default()),
    }
}

fn ref_arrive(st: &mut RefState, k: Key, side: usize, id: Item) {
    match st {
        RefState::Stream(p) => p[side].push(id),
        RefState::Keyed(p) => p[side].entry(k).or_default().push(id),
        RefState::Snap { versions, .. } => versions.push(id),
        RefState::KeyedSnap { versions, .. } => versions.entry(k).or_default().push(id),
    }
}

fn ref_has_new(st: &RefState) -> bool {
    match st {
        RefState::Stream(p) => p.iter().any(|x| !x.is_empty()),
        RefState::Keyed(p) => p.iter().any(|m| m.values().any(|x| !x.is_empty())),
        RefState::Snap { versions, last } => !versions.is_empty() && last.is_none_or(|l| l + 1 < versions.len()),
        RefState::KeyedSnap { versions, last } => versions.iter().any(|(k, v)| !v.is_empty() && last.get(k).is_none_or(|l| l + 1 < v.len())),
    }
}
fn ref_ready(st: &RefState) -> bool {
    match st {
        RefState::Snap { versions, .. } => !versions.is_empty(),
        _ => true,
    }
}

fn subset(sim: &mut Sim, v: &mut Vec<Item>) -> Vec<Item> {
    let mut out = vec![];
    let mut keep = vec![];
    for x in v.drain(..) {
        if sim.flip("ref_take", 1, 2) {
            out.push(x);
        } else {
            keep.push(x);
        }
    }
    *v = keep;
    out
}
fn prefix(sim: &mut Sim, v: &mut Vec<Item>) -> Vec<Item> {
    let n = sim.choose("ref_prefix", 0, v.len() as u64) as usize;
    v.drain(..n).collect()
}

/// Draw one legal release of a *batch* hook (inside a tick). Returns (released, released new?).
fn ref_release_tick(sim: &mut Sim, kind: Kind, st: &mut RefState) -> (Released, bool) {
    match (kind, st) {
        (Kind::StreamTotal, RefState::Stream(p)) => {
            let r = prefix(sim, &mut p[0]);
            let n = !r.is_empty();
            (Released::Items(r), n)
        }
        (Kind::StreamNoOrder, RefState::Stream(p)) => {
            let r = subset(sim, &mut p[0]);
            let n = !r.is_empty();
            (Released::Items(r), n)
        }
        (Kind::KeyedTotal, RefState::Keyed(p)) | (Kind::KeyedNoOrder, RefState::Keyed(p)) => {
            let mut out = vec![];
            for (k, q) in p[0].iter_mut() {
                let r = if kind == Kind::KeyedTotal { prefix(sim, q) } else { subset(sim, q) };
                out.extend(r.into_iter().map(|x| (*k, x)));
            }
            p[0].retain(|_, q| !q.is_empty());
            let n = !out.is_empty();
            (Released::Keyed(out), n)
        }
        (Kind::Singleton, RefState::Snap { versions, last }) => {
            // any version >= the last released one
            let lo = last.unwrap_or(0);
            let idx = sim.choose("ref_version", lo as u64, versions.len() as u64 - 1) as usize;
            let new = last.is_none_or(|l| idx > l);
            *last = Some(idx);
            (Released::Items(vec![versions[idx]]), new)
        }
        (Kind::KeyedSingleton, RefState::KeyedSnap { versions, last }) => {
            let mut out = vec![];
            let mut any_new = false;
            for (k, vs) in versions.iter() {
                match last.get(k).copied() {
                    Some(l) => {
                        let idx = sim.choose("ref_version", l as u64, vs.len() as u64 - 1) as usize;
                        any_new |= idx > l;
                        last.insert(*k, idx);
                        out.push((*k, vs[idx]));
                    }
                    None => {
                        // the key may stay absent, or enter the snapshot at any version
                        let c = sim.choose("ref_version_or_absent", 0, vs.len() as u64) as usize;
                        if c > 0 {
                            last.insert(*k, c - 1);
                            out.push((*k, vs[c - 1]));
                            any_new = true;
                        }
                    }
                }
            }
            (Released::Keyed(out), any_new)
        }
        _ => unreachable!("not a batch hook"),
    }
}

/// Draw one legal release of a top-level hook (an observation is always non-trivial).
fn ref_release_observation(sim: &mut Sim, kind: Kind, st: &mut RefState) -> Released {
    match (kind, st) {
        (Kind::TopOrder, RefState::Stream(p)) => {
            // one element at a time, any pending element
            let i = sim.choose("ref_pick", 0, p[0].len() as u64 - 1) as usize;
            Released::Items(vec![p[0].remove(i)])
        }
        (Kind::TopFold, RefState::Stream(p)) => {
            // any non-empty subset, in any order
            loop {
                let mut pend = p[0].clone();
                let mut r = subset(sim, &mut pend);
                if r.is_empty() {
                    continue;
                }
                p[0] = pend;
                // Fisher-Yates with my own decisions
                for i in (1..r.len()).rev() {
                    let j = sim.choose("ref_shuffle", 0, i as u64) as usize;
                    r.swap(i, j);
                }
                return Released::Items(r);
            }
        }
        (Kind::TopMerge, RefState::Stream(p)) => {
            let sides: Vec<usize> = (0..2).filter(|s| !p[*s].is_empty()).collect();
            let s = *sim.pick("ref_side", &sides);
            Released::Items(vec![p[s].remove(0)])
        }
        (Kind::TopKeyedOrder, RefState::Keyed(p)) => {
            let all: Vec<(Key, usize)> = p[0].iter().flat_map(|(k, q)| (0..q.len()).map(move |i| (*k, i))).collect();
            let (k, i) = *sim.pick("ref_pick", &all);
            let x = p[0].get_mut(&k).unwrap().remove(i);
            p[0].retain(|_, q| !q.is_empty());
            Released::Keyed(vec![(k, x)])
        }
        (Kind::TopPartial, RefState::Keyed(p)) => {
            let keys: Vec<Key> = p[0].keys().copied().collect();
            let k = *sim.pick("ref_pick", &keys);
            let x = p[0].get_mut(&k).unwrap().remove(0);
            p[0].retain(|_, q| !q.is_empty());
            Released::Keyed(vec![(k, x)])
        }
        (Kind::TopKeyedMerge, RefState::Keyed(p)) => {
            let cands: Vec<(usize, Key)> = (0..2).flat_map(|s| p[s].keys().map(move |k| (s, *k)).collect::<Vec<_>>()).collect();
            let (s, k) = *sim.pick("ref_pick", &cands);
            let x = p[s].get_mut(&k).unwrap().remove(0);
            p[s].retain(|_, q| !q.is_empty());
            Released::Keyed(vec![(k, x)])
        }
        _ => unreachable!("not a top-level hook"),
    }
}

fn draw_config(sim: &mut Sim, top: bool) -> Config {
    let kinds: Vec<Kind> = if top {
        vec![*sim.pick("knob_kind", &Kind::TOP)]
    } else {
        let n = sim.choose("knob_hooks", 1, 2);
        (0..n).map(|_| *sim.pick("knob_kind", &Kind::TICK[..6])).collect()
    };
    let ticks = if kinds.len() == 1 { sim.choose("knob_ticks", 1, 3) } else { sim.choose("knob_ticks", 1, 2) } as usize;
    let max_items = if kinds.len() == 1 { 4 } else { 3 };
    let nkeys = sim.choose("knob_nkeys", 1, 2);
    // bias towards the larger queues (max of two draws): they carry the interesting decision spaces
    let mut budget: Vec<u64> = kinds.iter().map(|_| sim.choose("knob_items", 1, max_items).max(sim.choose("knob_items", 1, max_items))).collect();
    let mut arrivals = vec![];
    for t in 0..ticks {
        let mut per_hook = vec![];
        for (h, k) in kinds.iter().enumerate() {
            // most items arrive before the first tick; later ticks may get one more
            let n = if t == 0 { sim.choose("knob_initial", 1, budget[h]).max(sim.choose("knob_initial", 1, budget[h])) } else { sim.choose("knob_late", 0, budget[h].min(1)) };
            budget[h] -= n;
            let items: Vec<(Key, u8)> = (0..n)
                .map(|_| {
                    let key = if k.keyed() { sim.choose("knob_key", 0, nkeys - 1) as Key } else { 0 };
                    let side = if k.two_inputs() { sim.choose("knob_side", 0, 1) as u8 } else { 0 };
                    (key, side)
                })
                .collect();
            per_hook.push(items);
        }
        arrivals.push(per_hook);
    }
    Config { kinds, arrivals }
}

fn run_cfg(sim: &mut Sim, top: bool) -> Outcome {
    let cfg = draw_config(sim, top);
    sim.event(fnv_str(&format!("{cfg:?}")), || format!("config {cfg:?}"));
    let s = outcomes_of(&cfg);
    let (set, execs) = match &*s {
        Ok(x) => x,
        Err(v) => return Outcome::fail(v.clone(), 0),
    };
    sim.event(set.len() as u64 ^ (execs << 20), || format!("exhaustive: {execs} executions, {} distinct outcomes", set.len()));
    if set.len() > 1 {
        sim.probe("exhaustive_space_has_several_outcomes");
    }
    // one reference outcome per run
    let mut states: Vec<RefState> = cfg.kinds.iter().map(|k| ref_new(*k)).collect();
    let mut next_id = 1;
    let mut outcome: OutcomeTuple = vec![];
    let mut nonfirst = false;
    for t in 0..cfg.arrivals.len() {
        for (h, items) in cfg.arrivals[t].iter().enumerate() {
            for (k, side) in items {
                ref_arrive(&mut states[h], *k, *side as usize, next_id);
                next_id += 1;
            }
        }
        let runnable = states.iter().all(ref_ready) && states.iter().any(ref_has_new);
        if !runnable {
            outcome.push(vec![]);
            continue;
        }
        if top {
            let r = ref_release_observation(sim, cfg.kinds[0], &mut states[0]);
            outcome.push(vec![normalise(cfg.kinds[0], r)]);
        } else {
            // rejection-sample a tick in which at least one hook releases something new
            let mut tries = 0;
            loop {
                tries += 1;
                let mut trial = states.clone();
                let mut tick = vec![];
                let mut any_new = false;
                for (h, k) in cfg.kinds.iter().enumerate() {
                    // a hook with nothing new can only make its trivial decision
                    let (r, n) = ref_release_tick(sim, *k, &mut trial[h]);
                    any_new |= n;
                    tick.push(normalise(*k, r));
                }
                if any_new {
                    states = trial;
                    outcome.push(tick);
                    break;
                }
                if tries > 64 {
                    return Outcome { discarded: true, ..Outcome::ok(false, 0) };
                }
            }
        }
    }
    nonfirst |= sim.trace.iter().any(|d| d.site.starts_with("ref_") && d.val != d.lo);
    let member = set.contains(&outcome);
    sim.event(fnv_str(&format!("{outcome:?}")) ^ member as u64, || format!("reference outcome {outcome:?} member={member}"));
    if !member {
        let class = format!("exhaustive_missed/{}", cfg.kinds.iter().map(|k| k.name()).collect::<Vec<_>>().join("+"));
        return Outcome::fail(
            Violation::new(class, format!("legal outcome {outcome:?} of configuration {cfg:?} is not among the {} outcomes ({execs} executions) the exhaustive driver reached", set.len())),
            cfg.arrivals.len() as u64,
        );
    }
    sim.state(fnv_str(&format!("{cfg:?}{outcome:?}")));
    Outcome::ok(nonfirst && outcome.iter().any(|t| t.iter().any(|r| !r.is_empty())), cfg.arrivals.len() as u64)
}

pub fn run_tick_cfg(sim: &mut Sim) -> Outcome {
    run_cfg(sim, false)
}
pub fn run_observation_cfg(sim: &mut Sim) -> Outcome {
    run_cfg(sim, true)
}
