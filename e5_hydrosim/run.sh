#!/bin/bash
# /verif/e5_hydrosim/run.sh <ID> [--tier quick|thorough] [--replay <file>] [--runs N] [--seed S]
# Build the engine (offline) and run the check for one of C31 C34 C36 C37 C38 C39 C40.
# Exit codes: 0 held / 1 violation confirmed from its replay file in a fresh process / 2 harness or build error.
set -u
cd "$(dirname "$0")"
export CARGO_NET_OFFLINE=true
export VERIF_DIR="${VERIF_DIR:-$(cd .. && pwd)}"
log="$(mktemp /var/tmp/verif-build-e5-XXXXXX.log)"
if ! cargo build --release --offline -p e5_hydrosim >"$log" 2>&1; then
  echo "HARNESS: build of e5_hydrosim failed (harness/build error, not a violation):" >&2
  tail -40 "$log" >&2; rm -f "$log"; exit 2
fi
rm -f "$log"
exec ./target/release/e5_hydrosim "$@"
