#!/bin/bash
# /verif/e1_push/check_c12.sh [--tier quick|thorough] [--replay <file>] [--runs N]
# Builds the e1_push engine (own workspace, own target dir) and runs the C12 check.
# exit 0 = held; 1 = violation reproduced from its replay file; 2 = harness/build error.
set -u
cd "$(dirname "$0")"
export CARGO_NET_OFFLINE=true
export VERIF_DIR="${VERIF_DIR:-$(cd .. && pwd)}"
log="$(mktemp /var/tmp/verif-build-XXXXXX.log)"
if ! cargo build --release --offline >"$log" 2>&1; then
  echo "HARNESS: build of e1_push failed (this is a harness/build error, not a violation):" >&2
  tail -40 "$log" >&2; rm -f "$log"; exit 2
fi
rm -f "$log"
exec ./target/release/e1_push C12 "$@"
