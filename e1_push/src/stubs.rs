//! Simulator-owned stubs around the real push combinators: `SimPush` (downstream with protocol
//! monitor, also usable as a `futures::Sink`), `SimPull` (source for the real `SendPush`),
//! `SimFuture` / `SimStream` (async item sources), `SinkAsPush` (drives a `SinkCompat` through the
//! `Sink` protocol).

use std::collections::VecDeque;
use std::convert::Infallible;
use std::future::Future;
use std::marker::PhantomData;
use std::pin::Pin;
use std::task::{Context, Poll, Waker};

use dfir_pipes::Yes;
use dfir_pipes::pull::{Pull, PullStep};
use dfir_pipes::push::{Push, PushStep};
use futures::{Sink, Stream};

use crate::env::E;

// ------------------------------------------------------------------------------------------
// item encoding (what a downstream records)

pub trait Enc {
    fn enc(&self) -> u64;
}
impl Enc for u32 {
    fn enc(&self) -> u64 {
        *self as u64
    }
}
impl Enc for (u32, u32) {
    fn enc(&self) -> u64 {
        // +1 keeps pairs distinguishable from plain values in the event log
        ((self.0 as u64 + 1) << 32) | self.1 as u64
    }
}
impl Enc for lattices::Max<u32> {
    fn enc(&self) -> u64 {
        *self.as_reveal_ref() as u64
    }
}
pub fn enc_pair(a: u32, b: u32) -> u64 {
    (a, b).enc()
}

// ------------------------------------------------------------------------------------------
// context selection: a downstream with `Ctx = ()` or with `Ctx = task::Context`

pub trait CtxSel: 'static {
    type Ctx<'c>: dfir_pipes::Context<'c>;
    fn with_waker<R>(ctx: &mut Self::Ctx<'_>, f: impl FnOnce(Option<&Waker>) -> R) -> R;
}
/// `Ctx = ()`: the push cannot see a waker; its wake-ups go to the driver task.
pub struct SyncCtx;
impl CtxSel for SyncCtx {
    type Ctx<'c> = ();
    fn with_waker<R>(_ctx: &mut (), f: impl FnOnce(Option<&Waker>) -> R) -> R {
        f(None)
    }
}
/// `Ctx = core::task::Context`: wake-ups go to whatever waker the combinator passed down.
pub struct TaskCtx;
impl CtxSel for TaskCtx {
    type Ctx<'c> = Context<'c>;
    fn with_waker<R>(ctx: &mut Context<'_>, f: impl FnOnce(Option<&Waker>) -> R) -> R {
        f(Some(ctx.waker()))
    }
}

// ------------------------------------------------------------------------------------------
// SimPush

/// Scripted downstream. `poll_ready` / `poll_finalize` answer `Pending` where the simulator says
/// so; every call goes through the protocol monitor in `Env`.
pub struct SimPush<'e, T, C> {
    env: E<'e>,
    id: usize,
    _p: PhantomData<(fn(T), C)>,
}
impl<'e, T, C> SimPush<'e, T, C> {
    pub fn new(env: E<'e>, id: usize) -> Self {
        SimPush { env, id, _p: PhantomData }
    }
}
impl<'e, T, C> Unpin for SimPush<'e, T, C> {}

impl<'e, T: Enc, C: CtxSel> Push<T, ()> for SimPush<'e, T, C> {
    type Ctx<'c> = C::Ctx<'c>;
    type CanPend = Yes;

    fn poll_ready(self: Pin<&mut Self>, ctx: &mut Self::Ctx<'_>) -> PushStep<Yes> {
        let pending = C::with_waker(ctx, |w| self.env.on_ready(self.id, w));
        if pending { PushStep::Pending(Yes) } else { PushStep::Done }
    }
    fn start_send(self: Pin<&mut Self>, item: T, _meta: ()) {
        self.env.on_send(self.id, item.enc());
    }
    fn poll_finalize(self: Pin<&mut Self>, ctx: &mut Self::Ctx<'_>) -> PushStep<Yes> {
        let pending = C::with_waker(ctx, |w| self.env.on_finalize(self.id, w));
        if pending { PushStep::Pending(Yes) } else { PushStep::Done }
    }
    fn size_hint(self: Pin<&mut Self>, _hint: (usize, Option<usize>)) {}
}

/// The same downstream seen as a `futures::Sink` (for `push::sink`): `poll_flush` plays the role
/// of finalize, exactly as `push::Sink` maps it.
impl<'e, T: Enc> Sink<T> for SimPush<'e, T, TaskCtx> {
    type Error = Infallible;
    fn poll_ready(self: Pin<&mut Self>, cx: &mut Context<'_>) -> Poll<Result<(), Infallible>> {
        if self.env.on_ready(self.id, Some(cx.waker())) { Poll::Pending } else { Poll::Ready(Ok(())) }
    }
    fn start_send(self: Pin<&mut Self>, item: T) -> Result<(), Infallible> {
        self.env.on_send(self.id, item.enc());
        Ok(())
    }
    fn poll_flush(self: Pin<&mut Self>, cx: &mut Context<'_>) -> Poll<Result<(), Infallible>> {
        if self.env.on_finalize(self.id, Some(cx.waker())) { Poll::Pending } else { Poll::Ready(Ok(())) }
    }
    fn poll_close(self: Pin<&mut Self>, cx: &mut Context<'_>) -> Poll<Result<(), Infallible>> {
        Sink::poll_flush(self, cx)
    }
}

pub fn sp<'e, T: Enc>(env: E<'e>, id: usize) -> SimPush<'e, T, TaskCtx> {
    SimPush::new(env, id)
}
pub fn sps<'e, T: Enc>(env: E<'e>, id: usize) -> SimPush<'e, T, SyncCtx> {
    SimPush::new(env, id)
}

// ------------------------------------------------------------------------------------------
// SimPull

/// Scripted source for the real `SendPush` future: items in order, `Pending` where the simulator
/// says so (also before the first item and before `Ended`).
pub struct SimPull<'e, T> {
    env: E<'e>,
    items: VecDeque<T>,
    ended: bool,
}
impl<'e, T> SimPull<'e, T> {
    pub fn new(env: E<'e>, items: Vec<T>) -> Self {
        SimPull { env, items: items.into(), ended: false }
    }
}
impl<'e, T> Unpin for SimPull<'e, T> {}

impl<'e, T> Pull for SimPull<'e, T> {
    type Ctx<'c> = Context<'c>;
    type Item = T;
    type Meta = ();
    type CanPend = Yes;
    type CanEnd = Yes;

    fn pull(self: Pin<&mut Self>, ctx: &mut Context<'_>) -> PullStep<T, (), Yes, Yes> {
        let this = self.get_mut();
        let env = this.env;
        if this.ended {
            env.viol("pull_after_ended", "SendPush pulled its (unfused) source again after it had returned Ended".into());
            return PullStep::Ended(Yes);
        }
        if env.src_pending("pull_pend", env.cfg.p_pull, "pull_pending", Some(ctx.waker())) {
            env.event(0x500, || "source.pull -> Pending".into());
            return PullStep::Pending(Yes);
        }
        match this.items.pop_front() {
            Some(x) => {
                env.driver_send();
                env.event(0x501, || "source.pull -> Ready(item)".into());
                PullStep::Ready(x, ())
            }
            None => {
                this.ended = true;
                env.input_ended();
                env.event(0x502, || "source.pull -> Ended".into());
                PullStep::Ended(Yes)
            }
        }
    }

    fn size_hint(&self) -> (usize, Option<usize>) {
        let n = self.items.len();
        if self.env.cfg.vague_hint { (n / 2, None) } else { (n, Some(n)) }
    }
}

// ------------------------------------------------------------------------------------------
// SimFuture / SimStream

/// A future that is `Pending` a simulator-chosen number of times; each `Pending` arranges a wake
/// (immediately or later) through whatever waker it was polled with.
pub struct SimFuture<'e, T> {
    env: E<'e>,
    val: T,
    done: bool,
}
impl<'e, T> SimFuture<'e, T> {
    pub fn new(env: E<'e>, val: T) -> Self {
        SimFuture { env, val, done: false }
    }
}
impl<'e, T> Unpin for SimFuture<'e, T> {}
impl<'e, T: Clone> Future for SimFuture<'e, T> {
    type Output = T;
    fn poll(self: Pin<&mut Self>, cx: &mut Context<'_>) -> Poll<T> {
        let this = self.get_mut();
        let env = this.env;
        if this.done {
            env.viol("future_polled_after_completion", "a SimFuture was polled again after it had returned Ready".into());
            return Poll::Ready(this.val.clone());
        }
        if env.src_pending("fut_pend", env.cfg.p_src, "future_pending", Some(cx.waker())) {
            env.event(0x510, || "future.poll -> Pending".into());
            return Poll::Pending;
        }
        this.done = true;
        env.event(0x511, || "future.poll -> Ready".into());
        Poll::Ready(this.val.clone())
    }
}

pub struct SimStream<'e> {
    env: E<'e>,
    items: VecDeque<u32>,
    ended: bool,
}
impl<'e> SimStream<'e> {
    pub fn new(env: E<'e>, items: Vec<u32>) -> Self {
        SimStream { env, items: items.into(), ended: false }
    }
}
impl<'e> Unpin for SimStream<'e> {}
impl<'e> Stream for SimStream<'e> {
    type Item = u32;
    fn poll_next(self: Pin<&mut Self>, cx: &mut Context<'_>) -> Poll<Option<u32>> {
        let this = self.get_mut();
        let env = this.env;
        if this.ended {
            env.viol("stream_polled_after_end", "a SimStream was polled again after it had returned None".into());
            return Poll::Ready(None);
        }
        if env.src_pending("stream_pend", env.cfg.p_src, "stream_pending", Some(cx.waker())) {
            env.event(0x520, || "stream.poll_next -> Pending".into());
            return Poll::Pending;
        }
        match this.items.pop_front() {
            Some(x) => {
                env.event(0x521, || format!("stream.poll_next -> Some({x})"));
                Poll::Ready(Some(x))
            }
            None => {
                this.ended = true;
                env.event(0x522, || "stream.poll_next -> None".into());
                Poll::Ready(None)
            }
        }
    }
    fn size_hint(&self) -> (usize, Option<usize>) {
        (self.items.len(), Some(self.items.len()))
    }
}

// ------------------------------------------------------------------------------------------
// SinkAsPush: drive a `futures::Sink` (here: `SinkCompat<P>`) through the generic drivers

/// Harness adaptor: `poll_ready -> Sink::poll_ready`, `start_send -> Sink::start_send`,
/// `poll_finalize -> Sink::poll_close` (with an optional no-op `poll_flush` first, which
/// `SinkCompat` documents as legal at any time).
pub struct SinkAsPush<'e, S> {
    env: E<'e>,
    sink: Pin<Box<S>>,
}
impl<'e, S> SinkAsPush<'e, S> {
    pub fn new(env: E<'e>, sink: S) -> Self {
        SinkAsPush { env, sink: Box::pin(sink) }
    }
}
impl<'e, S> Unpin for SinkAsPush<'e, S> {}
impl<'e, T, S: Sink<T>> Push<T, ()> for SinkAsPush<'e, S> {
    type Ctx<'c> = Context<'c>;
    type CanPend = Yes;
    fn poll_ready(self: Pin<&mut Self>, ctx: &mut Context<'_>) -> PushStep<Yes> {
        let this = self.get_mut();
        if this.env.cfg.mode && this.sink.as_mut().poll_flush(ctx).is_pending() {
            this.env.viol("sink_compat_flush_pending", "SinkCompat::poll_flush returned Pending (documented as a no-op)".into());
        }
        match this.sink.as_mut().poll_ready(ctx) {
            Poll::Ready(_) => PushStep::Done,
            Poll::Pending => PushStep::Pending(Yes),
        }
    }
    fn start_send(self: Pin<&mut Self>, item: T, _meta: ()) {
        let _ = self.get_mut().sink.as_mut().start_send(item);
    }
    fn poll_finalize(self: Pin<&mut Self>, ctx: &mut Context<'_>) -> PushStep<Yes> {
        match self.get_mut().sink.as_mut().poll_close(ctx) {
            Poll::Ready(_) => PushStep::Done,
            Poll::Pending => PushStep::Pending(Yes),
        }
    }
    fn size_hint(self: Pin<&mut Self>, _hint: (usize, Option<usize>)) {}
}
