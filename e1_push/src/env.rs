//! Per-run environment of the C12 harness: knobs, the shared decision source, the downstream
//! records with their **protocol monitor**, deferred wake-ups (the "timer"), reach probes.
//!
//! Everything the simulator owns lives here; the stubs in `stubs.rs` are thin front ends that
//! call into `Env`. No method of `Env` ever calls into code under test, so the `RefCell`s can
//! never be borrowed re-entrantly.

use std::cell::RefCell;
use std::sync::atomic::{AtomicBool, AtomicU64, Ordering};
use std::sync::{Arc, Mutex};
use std::task::{Wake, Waker};

use simcore::{Sim, SimCell, Violation};

pub const MAX_OUTS: usize = 4;

/// Granularity at which a downstream is compared with its reference (only what C12 promises).
#[derive(Clone, Copy, PartialEq, Eq, Debug)]
pub enum Cmp {
    /// exact sequence per epoch
    Seq,
    /// multiset per epoch (hash-ordered keyed accumulators, `FuturesUnordered`)
    Bag,
    /// exact sequence over the whole run (non-blocking `resolve_futures`: the epoch in which a
    /// future's output is delivered depends on when it resolves)
    RunSeq,
    /// multiset over the whole run
    RunBag,
}

#[derive(Clone, Copy, PartialEq, Eq, Debug)]
pub enum Driver {
    /// the real `dfir_pipes::pull::SendPush` future fed by a `SimPull`
    SendPush,
    /// minimal protocol-correct hand-written driver
    Hand,
}

#[derive(Clone, Copy, PartialEq, Eq, Debug)]
pub enum Ans {
    None,
    Done,
    Pending,
}

/// Static description of a catalogue shape.
#[derive(Clone, Copy, Debug)]
pub struct ShapeInfo {
    pub name: &'static str,
    /// lead combinator of the shape; violation classes are `<oracle>/<family>` so that one defect
    /// of one combinator is one class however many catalogue shapes contain it
    pub family: &'static str,
    /// number of downstream records (SimPush ones first, then virtual ones)
    pub n_outs: usize,
    /// how many of them are virtual (terminal combinators observed through a closure / a Vec):
    /// no protocol monitor, no finalize requirement
    pub n_virtual: usize,
    pub max_epochs: usize,
    /// probe recorded when an item reaches a downstream after that downstream answered `Pending`
    /// with no new driver-level `start_send` in between (the pipeline held it across the Pending)
    pub held_ready: &'static str,
    pub held_fin: &'static str,
    /// every poll of downstream 0 is accompanied by a poll of downstream 1 in the same pipeline
    /// call (both hang directly under a `ready_both!` combinator): the "coupled legs" readiness
    /// pattern may be drawn for this shape
    pub coupled_ok: bool,
}

/// Per-run knobs (swarm testing: drawn first, before the schedule).
#[derive(Clone, Debug)]
pub struct Cfg {
    pub shape: ShapeInfo,
    /// closure-library parameter
    pub k: u32,
    pub n_epochs: usize,
    /// per-epoch shape-specific flag (e.g. `persist`'s `replay`)
    pub flags: [bool; 4],
    /// shape-specific variant (e.g. `'static` vs `'tick` accumulator lifetime)
    pub mode: bool,
    pub max_items: usize,
    pub p_ready: [u64; MAX_OUTS],
    pub p_fin: [u64; MAX_OUTS],
    pub p_pull: u64,
    /// pending probability of SimFuture / SimStream polls
    pub p_src: u64,
    pub burst_max: u64,
    pub defer_pct: u64,
    pub spurious_pct: u64,
    pub driver: Driver,
    pub hand_ready_before_fin: bool,
    pub hand_extra_ready_pct: u64,
    pub hand_size_hint: bool,
    pub vague_hint: bool,
    /// coupled legs: once downstream 0 answers `Pending` it stays `Pending` (and is not woken)
    /// until downstream 1 has been polled — the situation `ready_both!` exists for ("both
    /// expressions are always evaluated so that both sides can do work and/or register wakers"),
    /// e.g. two legs feeding the two ends of one bounded buffer
    pub coupled: bool,
}

impl Cfg {
    pub fn draw(sim: &mut Sim, shape: ShapeInfo) -> Cfg {
        const RATES: [u64; 6] = [0, 0, 10, 25, 50, 75];
        let k = sim.choose("k", 0, 3) as u32;
        let n_epochs = sim.choose("epochs", 1, shape.max_epochs as u64) as usize;
        let mut flags = [false; 4];
        for f in flags.iter_mut().take(n_epochs) {
            *f = sim.flip("epoch_flag", 1, 2);
        }
        let mode = sim.flip("mode", 1, 2);
        let max_items = sim.choose("max_items", 0, 6) as usize;
        let mut p_ready = [0; MAX_OUTS];
        let mut p_fin = [0; MAX_OUTS];
        for i in 0..shape.n_outs - shape.n_virtual {
            p_ready[i] = *sim.pick("p_ready", &RATES);
            p_fin[i] = *sim.pick("p_fin", &RATES);
        }
        let p_pull = *sim.pick("p_pull", &RATES);
        let p_src = *sim.pick("p_src", &RATES);
        let burst_max = sim.choose("burst_max", 0, 3);
        let defer_pct = *sim.pick("defer_pct", &[0u64, 0, 30, 100]);
        let spurious_pct = *sim.pick("spurious_pct", &[0u64, 0, 10, 30]);
        let driver = if sim.flip("hand_driver", 1, 2) { Driver::Hand } else { Driver::SendPush };
        let hand_ready_before_fin = !sim.flip("hand_no_ready_before_fin", 1, 2);
        let hand_extra_ready_pct = *sim.pick("hand_extra_ready", &[0u64, 0, 20, 50]);
        let hand_size_hint = !sim.flip("hand_no_size_hint", 1, 2);
        let vague_hint = sim.flip("vague_hint", 1, 3);
        let coupled = shape.coupled_ok && sim.flip("coupled_legs", 1, 3);
        Cfg {
            shape,
            k,
            n_epochs,
            flags,
            mode,
            max_items,
            p_ready,
            p_fin,
            p_pull,
            p_src,
            burst_max,
            defer_pct,
            spurious_pct,
            driver,
            hand_ready_before_fin,
            hand_extra_ready_pct,
            hand_size_hint,
            vague_hint,
            coupled,
        }
    }
}

/// The waker handed to non-blocking `resolve_futures` (the "subgraph waker" that schedules
/// another tick in the real scheduler).
pub struct SubgraphWake {
    pub woken: AtomicBool,
    pub wakes: AtomicU64,
    waiter: Mutex<Option<Waker>>,
}
impl SubgraphWake {
    pub fn new() -> Arc<Self> {
        Arc::new(SubgraphWake { woken: AtomicBool::new(false), wakes: AtomicU64::new(0), waiter: Mutex::new(None) })
    }
    pub fn set_waiter(&self, w: Waker) {
        *self.waiter.lock().unwrap() = Some(w);
    }
    pub fn take_woken(&self) -> bool {
        self.woken.swap(false, Ordering::SeqCst)
    }
}
impl Wake for SubgraphWake {
    fn wake(self: Arc<Self>) {
        self.wake_by_ref()
    }
    fn wake_by_ref(self: &Arc<Self>) {
        self.wakes.fetch_add(1, Ordering::SeqCst);
        self.woken.store(true, Ordering::SeqCst);
        let w = self.waiter.lock().unwrap().take();
        if let Some(w) = w {
            w.wake();
        }
    }
}

/// One downstream: what it received (encoded, per epoch) plus the protocol-monitor state.
pub struct OutRec {
    pub is_virtual: bool,
    pub epochs: Vec<Vec<u64>>,
    /// per epoch: did `poll_finalize` return `Done`
    pub finalized: Vec<bool>,
    // monitor state of the current epoch
    ready_ok: bool,
    fin_called: bool,
    fin_done: bool,
    /// value of `driver_sends` when this downstream last answered `Pending`
    pend_mark: Option<u64>,
    ready_burst: u64,
    fin_burst: u64,
}

pub struct St {
    pub outs: Vec<OutRec>,
    pub epoch: usize,
    pub in_epoch: bool,
    pub input_ended: bool,
    /// driver-level `start_send`s so far in this run
    pub driver_sends: u64,
    pub violation: Option<Violation>,
    deferred: Vec<(Waker, u64)>,
    timer_waker: Option<Waker>,
    pub driver_waker: Option<Waker>,
    pub main_done: bool,
    pub waiting_subgraph: bool,
    /// coupled legs: downstream 0 is blocked until downstream 1 is polled; its waker
    pub coupled_blocked: bool,
    coupled_waker: Option<Waker>,
    pend_budget: u64,
    pub items_flowed: u64,
    pub polls: u64,
    /// `Pending` answers given by SimPush downstreams so far
    pub push_pendings: u64,
    // answers in the current driver-poll window
    win_ready: [Ans; MAX_OUTS],
    win_fin: [Ans; MAX_OUTS],
}

pub struct Env<'s> {
    pub simc: SimCell<'s>,
    pub cfg: Cfg,
    pub st: RefCell<St>,
    pub subgraph: Arc<SubgraphWake>,
}

pub type E<'e> = &'e Env<'e>;

const PEND_BUDGET: u64 = 48;

impl<'s> Env<'s> {
    pub fn new(sim: &'s mut Sim, cfg: Cfg) -> Env<'s> {
        let n = cfg.shape.n_outs;
        let nv = cfg.shape.n_virtual;
        let outs = (0..n)
            .map(|i| OutRec {
                is_virtual: i >= n - nv,
                epochs: Vec::new(),
                finalized: Vec::new(),
                ready_ok: false,
                fin_called: false,
                fin_done: false,
                pend_mark: None,
                ready_burst: 0,
                fin_burst: 0,
            })
            .collect();
        Env {
            simc: RefCell::new(sim),
            cfg,
            st: RefCell::new(St {
                outs,
                epoch: 0,
                in_epoch: false,
                input_ended: false,
                driver_sends: 0,
                violation: None,
                deferred: Vec::new(),
                timer_waker: None,
                driver_waker: None,
                main_done: false,
                waiting_subgraph: false,
                coupled_blocked: false,
                coupled_waker: None,
                pend_budget: PEND_BUDGET,
                items_flowed: 0,
                polls: 0,
                push_pendings: 0,
                win_ready: [Ans::None; MAX_OUTS],
                win_fin: [Ans::None; MAX_OUTS],
            }),
            subgraph: SubgraphWake::new(),
        }
    }

    // ---------------------------------------------------------------- small helpers
    pub fn viol(&self, oracle: &str, detail: String) {
        let mut st = self.st.borrow_mut();
        if st.violation.is_none() {
            st.violation =
                Some(Violation::new(format!("{oracle}/{}", self.cfg.shape.family), format!("shape `{}`: {detail}", self.cfg.shape.name)));
        }
    }
    pub fn has_violation(&self) -> bool {
        self.st.borrow().violation.is_some()
    }
    pub fn flip(&self, site: &'static str, pct: u64) -> bool {
        pct > 0 && self.simc.borrow_mut().flip(site, pct, 100)
    }
    pub fn choose(&self, site: &'static str, lo: u64, hi: u64) -> u64 {
        self.simc.borrow_mut().choose(site, lo, hi)
    }
    pub fn probe(&self, name: &'static str) {
        self.simc.borrow_mut().probe(name);
    }
    pub fn fault(&self, name: &'static str) {
        self.simc.borrow_mut().fault(name);
    }
    pub fn event(&self, code: u64, f: impl FnOnce() -> String) {
        self.simc.borrow_mut().event(code, f);
    }

    /// A stub that answers `Pending` must make sure its caller is polled again: immediately
    /// (benign) or later through the timer task. `waker == None`: the stub has no task context
    /// (`Ctx = ()`), the wake goes to the driver task.
    pub fn arrange_wake(&self, waker: Option<&Waker>) {
        let w: Waker = match waker {
            Some(w) => w.clone(),
            None => match &self.st.borrow().driver_waker {
                Some(w) => w.clone(),
                None => return,
            },
        };
        if self.flip("defer_wake", self.cfg.defer_pct) {
            let d = self.choose("wake_delay", 0, 3);
            self.fault("wake_deferred");
            let mut st = self.st.borrow_mut();
            st.deferred.push((w, d));
            if let Some(t) = st.timer_waker.take() {
                t.wake();
            }
        } else {
            w.wake();
        }
    }

    /// Draw one pending decision (with bursts and a global budget that guarantees termination).
    fn decide_pending(&self, site: &'static str, pct: u64, burst: &mut u64, bursts: bool) -> bool {
        let budget = self.st.borrow().pend_budget;
        if budget == 0 {
            *burst = 0;
            return false;
        }
        let pending = if *burst > 0 {
            *burst -= 1;
            true
        } else if self.flip(site, pct) {
            if bursts && self.cfg.burst_max > 0 {
                *burst = self.choose("burst", 0, self.cfg.burst_max);
            }
            true
        } else {
            false
        };
        if pending {
            self.st.borrow_mut().pend_budget -= 1;
        }
        pending
    }

    /// Generic pending decision for sources (SimPull / SimFuture / SimStream).
    pub fn src_pending(&self, site: &'static str, pct: u64, fault: &'static str, waker: Option<&Waker>) -> bool {
        let mut b = 0;
        let p = self.decide_pending(site, pct, &mut b, false);
        if p {
            self.fault(fault);
            self.arrange_wake(waker);
        }
        p
    }

    // ---------------------------------------------------------------- epochs
    pub fn begin_epoch(&self, ep: usize) {
        let mut st = self.st.borrow_mut();
        st.epoch = ep;
        st.in_epoch = true;
        st.input_ended = false;
        for o in st.outs.iter_mut() {
            o.epochs.push(Vec::new());
            o.finalized.push(false);
            o.ready_ok = false;
            o.fin_called = false;
            o.fin_done = false;
            o.pend_mark = None;
            o.ready_burst = 0;
            o.fin_burst = 0;
        }
        drop(st);
        self.event(0x10 + ep as u64, || format!("=== epoch {ep} begins"));
    }

    /// The driver of this epoch completed: every (non-virtual) downstream must have seen
    /// `poll_finalize -> Done`.
    pub fn end_epoch(&self) {
        let (ep, missing) = {
            let mut st = self.st.borrow_mut();
            st.in_epoch = false;
            let ep = st.epoch;
            let missing: Vec<usize> =
                st.outs.iter().enumerate().filter(|(_, o)| !o.is_virtual && !o.fin_done).map(|(i, _)| i).collect();
            (ep, missing)
        };
        self.event(0x20 + ep as u64, || format!("=== epoch {ep}: driver completed"));
        if let Some(i) = missing.first() {
            self.viol(
                "not_finalized",
                format!("epoch {ep}: the driver completed but downstream {i} never saw poll_finalize -> Done"),
            );
        }
    }

    pub fn driver_send(&self) {
        self.st.borrow_mut().driver_sends += 1;
    }
    pub fn input_ended(&self) {
        self.st.borrow_mut().input_ended = true;
    }

    // ---------------------------------------------------------------- coupled legs
    /// Downstream 1 is being polled: a blocked downstream 0 becomes pollable again and is woken.
    fn coupled_sibling_polled(&self, id: usize) {
        if !self.cfg.coupled || id != 1 {
            return;
        }
        let w = {
            let mut st = self.st.borrow_mut();
            if !st.coupled_blocked {
                return;
            }
            st.coupled_blocked = false;
            st.coupled_waker.take()
        };
        self.probe("coupled_leg_unblocked_by_sibling_poll");
        self.event(0x700, || "out1 polled: out0 unblocked and woken".into());
        if let Some(w) = w {
            w.wake();
        }
    }
    /// Downstream 0 in coupled mode: `Some(true)` = still blocked (forced Pending, no decision).
    fn coupled_forced(&self, id: usize, waker: Option<&Waker>) -> bool {
        if !self.cfg.coupled || id != 0 {
            return false;
        }
        let mut st = self.st.borrow_mut();
        if st.coupled_blocked {
            st.coupled_waker = waker.cloned().or_else(|| st.driver_waker.clone());
            true
        } else {
            false
        }
    }
    /// Downstream 0 just answered a (drawn) Pending in coupled mode: block it instead of arranging
    /// a wake-up. Returns true when it took over the wake-up.
    fn coupled_block(&self, id: usize, waker: Option<&Waker>) -> bool {
        if !self.cfg.coupled || id != 0 {
            return false;
        }
        let mut st = self.st.borrow_mut();
        st.coupled_blocked = true;
        st.coupled_waker = waker.cloned().or_else(|| st.driver_waker.clone());
        true
    }

    // ---------------------------------------------------------------- downstream front end
    pub fn on_ready(&self, id: usize, waker: Option<&Waker>) -> bool {
        let (mut burst, after_fin, after_done) = {
            let mut st = self.st.borrow_mut();
            st.polls += 1;
            let o = &st.outs[id];
            (o.ready_burst, o.fin_called, o.fin_done)
        };
        if after_done {
            self.probe("obs/poll_ready_after_finalize_done");
        } else if after_fin {
            self.probe("obs/poll_ready_after_finalize_pending");
        }
        self.coupled_sibling_polled(id);
        let forced = self.coupled_forced(id, waker);
        let pending = forced || self.decide_pending(RDY_SITES[id], self.cfg.p_ready[id], &mut burst, true);
        {
            let mut st = self.st.borrow_mut();
            let sends = st.driver_sends;
            st.win_ready[id] = if pending { Ans::Pending } else { Ans::Done };
            st.push_pendings += pending as u64;
            let o = &mut st.outs[id];
            o.ready_burst = burst;
            o.ready_ok = !pending;
            if pending {
                o.pend_mark = Some(sends);
            }
        }
        self.event(0x1000 + id as u64 * 16 + pending as u64, || {
            format!("out{id}.poll_ready -> {}", if pending { "Pending" } else { "Done" })
        });
        if pending {
            self.fault("ready_pending");
            if !forced && !self.coupled_block(id, waker) {
                self.arrange_wake(waker);
            }
        }
        pending
    }

    pub fn on_send(&self, id: usize, item: u64) {
        let (bad_ready, bad_fin, held, in_fin, ep) = {
            let mut st = self.st.borrow_mut();
            st.items_flowed += 1;
            let sends = st.driver_sends;
            let in_fin = st.input_ended;
            let ep = st.epoch;
            let o = &mut st.outs[id];
            let bad_ready = !o.ready_ok;
            let bad_fin = o.fin_called;
            let held = o.pend_mark == Some(sends);
            o.pend_mark = None;
            o.ready_ok = false;
            if let Some(v) = o.epochs.last_mut() {
                v.push(item);
            }
            (bad_ready, bad_fin, held, in_fin, ep)
        };
        self.event(0x2000 + id as u64 * 0x100 + (item & 0xff), || format!("out{id}.start_send({})", show(item)));
        if bad_fin {
            self.viol(
                "send_after_finalize",
                format!("epoch {ep}: downstream {id} got start_send({}) after its poll_finalize had been called", show(item)),
            );
        } else if bad_ready {
            self.viol(
                "send_without_ready",
                format!(
                    "epoch {ep}: downstream {id} got start_send({}) without a preceding poll_ready -> Done (no send in between, no later Pending)",
                    show(item)
                ),
            );
        }
        if held {
            self.probe(if in_fin { self.cfg.shape.held_fin } else { self.cfg.shape.held_ready });
        }
    }

    pub fn on_finalize(&self, id: usize, waker: Option<&Waker>) -> bool {
        self.coupled_sibling_polled(id);
        let (mut burst, already) = {
            let mut st = self.st.borrow_mut();
            st.polls += 1;
            let o = &mut st.outs[id];
            o.fin_called = true;
            (o.fin_burst, o.fin_done)
        };
        if already {
            // fused: a finalized downstream keeps answering Done
            self.probe("obs/poll_finalize_after_finalize_done");
            self.st.borrow_mut().win_fin[id] = Ans::Done;
            self.event(0x1800 + id as u64 * 16 + 2, || format!("out{id}.poll_finalize -> Done (again)"));
            return false;
        }
        let forced = self.coupled_forced(id, waker);
        let pending = forced || self.decide_pending(FIN_SITES[id], self.cfg.p_fin[id], &mut burst, true);
        {
            let mut st = self.st.borrow_mut();
            let sends = st.driver_sends;
            st.win_fin[id] = if pending { Ans::Pending } else { Ans::Done };
            st.push_pendings += pending as u64;
            let o = &mut st.outs[id];
            o.fin_burst = burst;
            if pending {
                o.pend_mark = Some(sends);
            } else {
                o.fin_done = true;
                if let Some(f) = o.finalized.last_mut() {
                    *f = true;
                }
            }
        }
        self.event(0x1800 + id as u64 * 16 + pending as u64, || {
            format!("out{id}.poll_finalize -> {}", if pending { "Pending" } else { "Done" })
        });
        if pending {
            self.fault("finalize_pending");
            if !forced && !self.coupled_block(id, waker) {
                self.arrange_wake(waker);
            }
        }
        pending
    }

    /// Item observed by a virtual downstream (terminal combinator: `for_each` closure, `inspect`
    /// closure, contents of a `vec_push` buffer).
    pub fn virt(&self, id: usize, item: u64) {
        {
            let mut st = self.st.borrow_mut();
            st.items_flowed += 1;
            if let Some(v) = st.outs[id].epochs.last_mut() {
                v.push(item);
            }
        }
        self.event(0x3000 + id as u64 * 0x100 + (item & 0xff), || format!("virtual out{id} <- {}", show(item)));
    }

    // ---------------------------------------------------------------- driver-poll window
    pub fn window_reset(&self) {
        let mut st = self.st.borrow_mut();
        st.win_ready = [Ans::None; MAX_OUTS];
        st.win_fin = [Ans::None; MAX_OUTS];
    }
    /// Reach probes about fan-out legs, evaluated after each poll of the driver task.
    pub fn window_eval(&self) {
        let n = self.cfg.shape.n_outs - self.cfg.shape.n_virtual;
        if n < 2 {
            return;
        }
        let (r, f) = {
            let st = self.st.borrow();
            (st.win_ready, st.win_fin)
        };
        let rp = r[..n].iter().filter(|a| **a == Ans::Pending).count();
        let rd = r[..n].iter().filter(|a| **a == Ans::Done).count();
        if rp == 1 && rd >= 1 {
            self.probe("one_leg_pending_in_ready");
        }
        if f[0] == Ans::Done && f[1] == Ans::Pending {
            self.probe("second_leg_only_pending_in_finalize");
        }
        if f[0] == Ans::Pending && f[1] == Ans::Done {
            self.probe("first_leg_only_pending_in_finalize");
        }
    }
    /// The top-level pipeline answered `Done` to a driver-level `poll_ready`: was some downstream
    /// `Pending` in that very call? (observation only; the consequences — a send without ready, a
    /// lost item — are what the oracles check)
    pub fn top_ready_done(&self, pending_before: u64) {
        let now = self.st.borrow().push_pendings;
        if now != pending_before {
            self.probe("obs/top_ready_done_in_a_call_with_a_pending_answer");
        }
    }
    pub fn pendings_so_far(&self) -> u64 {
        self.st.borrow().push_pendings
    }

    // ---------------------------------------------------------------- timer
    /// One poll of the timer task. Returns true when it is finished.
    pub fn timer_poll(&self, waker: &Waker) -> bool {
        let mut fire: Vec<Waker> = Vec::new();
        let done = {
            let mut st = self.st.borrow_mut();
            let mut i = 0;
            while i < st.deferred.len() {
                if st.deferred[i].1 == 0 {
                    fire.push(st.deferred.remove(i).0);
                } else {
                    st.deferred[i].1 -= 1;
                    i += 1;
                }
            }
            if !st.deferred.is_empty() {
                waker.wake_by_ref();
                false
            } else if st.main_done {
                true
            } else {
                st.timer_waker = Some(waker.clone());
                false
            }
        };
        let n = fire.len();
        for w in fire {
            w.wake();
        }
        if n > 0 {
            self.event(0x40 + n as u64, || format!("timer fires {n} deferred wake-up(s)"));
        }
        done
    }
    pub fn main_finished(&self) {
        let t = {
            let mut st = self.st.borrow_mut();
            st.main_done = true;
            st.timer_waker.take()
        };
        if let Some(t) = t {
            t.wake();
        }
    }
    pub fn deferred_outstanding(&self) -> usize {
        self.st.borrow().deferred.len()
    }
}

const RDY_SITES: [&str; MAX_OUTS] = ["rdy0", "rdy1", "rdy2", "rdy3"];
const FIN_SITES: [&str; MAX_OUTS] = ["fin0", "fin1", "fin2", "fin3"];

/// Human-readable form of an encoded item.
pub fn show(x: u64) -> String {
    if x >> 32 == 0 { format!("{x}") } else { format!("({},{})", x >> 32, x & 0xffff_ffff) }
}
