//! The push catalogue: macro-generated monomorphic pipeline shapes, each with its reference
//! semantics written with std iterators (DESIGN.md Appendix B, push part).
//!
//! Every shape builds its pipeline the way `dfir_lang`'s generated code does (see
//! `/repo/dfir_lang/src/graph/ops/*.rs`): `persist_state(&mut vec, replay, out)`,
//! `fold(&mut acc, f, map(clone, out))`, `reduce_ref(&mut opt, f, map(clone, out))`,
//! `FoldKeyed::new(&mut FxHashMap, init, f, out)`, `Sort::new(out)`,
//! `resolve_futures_state(&mut queue, Some(waker) | None, out)`, `sink(si)`,
//! `state_push(items_out, state_out, by_fn, &mut lattice)`, `demux_var(var_expr!(..))`, and the
//! `sort_by_key` expansion `fold(Vec::new(), push, flat_map(sort, out))`.

use std::collections::BTreeMap;
use std::task::Waker;

use dfir_pipes::push;
use futures::stream::{FuturesOrdered, FuturesUnordered};
use lattices::Max;
use rustc_hash::FxHashMap;
use simcore::runner::RunFn;
use simcore::{Outcome, Sim};
use variadics::var_expr;

use crate::drive::{Expect, MAX_DRAIN_EPOCHS, drive, exec_main, finish, outcome, wait_subgraph};
use crate::env::{Cfg, Cmp, E, Env, ShapeInfo};
use crate::stubs::{SimFuture, SimStream, SinkAsPush, enc_pair, sp, sps};

// ------------------------------------------------------------------------------------------
// closure library (indexed by the per-run parameter k)

pub fn f_map(k: u32, x: u32) -> u32 {
    x * 3 + k
}
pub fn f_pred(k: u32, x: u32) -> bool {
    (x + k) % 2 == 0
}
pub fn f_fm(k: u32, x: u32) -> Option<u32> {
    if (x + k) % 3 != 0 { Some(x * 2 + k) } else { None }
}
/// inner iterable of 0..=3 elements (empty ones included)
pub fn f_inner(k: u32, x: u32) -> Vec<u32> {
    (0..(x + k) % 4).map(|j| x * 10 + j).collect()
}
/// non-commutative fold step
pub fn f_fold(acc: &mut u32, x: u32) {
    *acc = acc.wrapping_mul(3).wrapping_add(x + 1);
}
pub fn f_red(acc: &mut u32, x: u32) {
    *acc = acc.wrapping_mul(5).wrapping_add(x);
}
pub fn f_kv(x: u32) -> (u32, u32) {
    (x % 3, x)
}

fn gen_u32(sim: &mut Sim) -> u32 {
    sim.choose("item", 0, 7) as u32
}
fn gen_vec(sim: &mut Sim) -> Vec<u32> {
    let n = sim.choose("inner_len", 0, 3);
    (0..n).map(|_| gen_u32(sim)).collect()
}

// ------------------------------------------------------------------------------------------
// reference helpers

fn e64(v: impl IntoIterator<Item = u32>) -> Vec<u64> {
    v.into_iter().map(|x| x as u64).collect()
}
/// single-downstream expectation
fn ex1(cmp: Cmp, per_epoch: Vec<Vec<u64>>) -> Expect {
    Expect { items: per_epoch.into_iter().map(|e| vec![e]).collect(), cmp: vec![cmp] }
}
fn exn(cmp: Vec<Cmp>, items: Vec<Vec<Vec<u64>>>) -> Expect {
    Expect { items, cmp }
}
fn r_flat(k: u32, xs: &[u32]) -> Vec<u32> {
    xs.iter().flat_map(|x| f_inner(k, *x)).collect()
}
fn r_fold(acc: &mut u32, xs: &[u32]) {
    for x in xs {
        f_fold(acc, *x);
    }
}
fn r_reduce(acc: &mut Option<u32>, xs: &[u32]) {
    for x in xs {
        match acc {
            Some(a) => f_red(a, *x),
            None => *acc = Some(*x),
        }
    }
}
fn r_sorted(xs: &[u32]) -> Vec<u32> {
    let mut v = xs.to_vec();
    v.sort();
    v
}
/// reference of `persist`: with `replay` everything persisted earlier comes first
#[derive(Default)]
struct RPersist(Vec<u32>);
impl RPersist {
    fn step(&mut self, replay: bool, xs: &[u32]) -> Vec<u32> {
        let mut out = if replay { self.0.clone() } else { Vec::new() };
        out.extend_from_slice(xs);
        self.0.extend_from_slice(xs);
        out
    }
}
fn r_keyed_fold(map: &mut BTreeMap<u32, u32>, init: u32, kvs: &[(u32, u32)]) -> Vec<u64> {
    for (k, v) in kvs {
        f_fold(map.entry(*k).or_insert(init), *v);
    }
    map.iter().map(|(k, v)| enc_pair(*k, *v)).collect()
}
fn r_keyed_reduce(map: &mut BTreeMap<u32, u32>, kvs: &[(u32, u32)]) -> Vec<u64> {
    for (k, v) in kvs {
        match map.get_mut(k) {
            Some(a) => f_red(a, *v),
            None => {
                map.insert(*k, *v);
            }
        }
    }
    map.iter().map(|(k, v)| enc_pair(*k, *v)).collect()
}
fn subgraph_waker(env: E<'_>) -> Waker {
    Waker::from(env.subgraph.clone())
}

/// Shapes in which downstream 0 and downstream 1 hang directly under one `ready_both!` combinator
/// (every call that polls downstream 0 also polls downstream 1): the coupled-legs readiness
/// pattern is only drawn for these.
const COUPLED_OK: &[&str] = &[
    "fanout",
    "unzip",
    "demux_var2",
    "demux_var3",
    "fanout(fanout(a,b),c)",
    "fanout(sync_ctx,task_ctx)",
    "persist>fanout",
    "flat_map_stream>fanout",
    "filter_map_async>fanout",
    "sort>fanout",
    "flat_map>unzip",
    "state_push",
];

// ------------------------------------------------------------------------------------------
// the shape macro

macro_rules! shape {
    (
        fn $fname:ident = $name:literal, family: $family:literal;
        outs: $nouts:expr, virtual_outs: $nvirt:expr, max_epochs: $maxep:expr, held: $tag:literal;
        spec: $Spec:ty = |$gsim:ident, $gcfg:ident| $gen:expr;
        make: |$menv:ident, $mspec:ident| $make:expr;
        state: $State:ty;
        build: |$env:ident, $st:ident, $ep:ident| $build:expr;
        after_epoch: |$aenv:ident, $ast:ident, $aep:ident| $after:expr;
        more_work: |$wst:ident| $more:expr;
        reference: |$rcfg:ident, $rspecs:ident| $reference:expr;
    ) => {
        #[allow(unused_variables, unused_mut, clippy::redundant_closure_call)]
        pub fn $fname(sim: &mut Sim) -> Outcome {
            let info = ShapeInfo {
                coupled_ok: COUPLED_OK.contains(&$name),
                name: $name,
                family: $family,
                n_outs: $nouts,
                n_virtual: $nvirt,
                max_epochs: $maxep,
                held_ready: concat!("held_across_pending_in_ready/", $tag),
                held_fin: concat!("held_across_pending_in_finalize/", $tag),
            };
            let cfg = Cfg::draw(sim, info);
            let mut specs: Vec<Vec<$Spec>> = Vec::new();
            for _ in 0..cfg.n_epochs {
                let n = sim.choose("n_items", 0, cfg.max_items as u64) as usize;
                let mut v: Vec<$Spec> = Vec::with_capacity(n);
                for _ in 0..n {
                    let $gsim = &mut *sim;
                    let $gcfg = &cfg;
                    v.push($gen);
                }
                specs.push(v);
            }
            let expect: Expect = {
                let $rcfg = &cfg;
                let $rspecs = &specs;
                $reference
            };
            let (v, flowed, time, h) = {
                let env_owned = Env::new(&mut *sim, cfg);
                let envr: E<'_> = &env_owned;
                let specs_ref = &specs;
                let main = async move {
                    let mut state: $State = Default::default();
                    let mut ep = 0usize;
                    loop {
                        let inputs: Vec<_> = match specs_ref.get(ep) {
                            Some(v) => v
                                .iter()
                                .map(|$mspec| {
                                    let $menv = envr;
                                    $make
                                })
                                .collect(),
                            None => Vec::new(),
                        };
                        envr.begin_epoch(ep);
                        {
                            let $env = envr;
                            let $st = &mut state;
                            let $ep = ep;
                            let pipeline = $build;
                            drive(envr, pipeline, inputs).await;
                        }
                        envr.end_epoch();
                        {
                            let $aenv = envr;
                            let $ast = &mut state;
                            let $aep = ep;
                            $after;
                        }
                        ep += 1;
                        if ep >= specs_ref.len() {
                            let more = {
                                let $wst = &state;
                                $more
                            };
                            if !more || ep >= specs_ref.len() + MAX_DRAIN_EPOCHS {
                                break;
                            }
                            wait_subgraph(envr).await;
                        }
                    }
                };
                let ex = exec_main(envr, main);
                finish(envr, &expect, &ex)
            };
            sim.state(h);
            outcome(v, flowed, sim.nonbenign, time)
        }
    };
}

// ------------------------------------------------------------------------------------------
// every combinator alone

shape! {
    fn s_map = "map", family: "stateless";
    outs: 1, virtual_outs: 0, max_epochs: 2, held: "other";
    spec: u32 = |sim, _c| gen_u32(sim);
    make: |_e, s| *s;
    state: ();
    build: |env, _st, _ep| { let k = env.cfg.k; push::map(move |x: u32| f_map(k, x), sp::<u32>(env, 0)) };
    after_epoch: |_e, _s, _p| ();
    more_work: |_s| false;
    reference: |cfg, specs| ex1(Cmp::Seq, specs.iter().map(|ep| e64(ep.iter().map(|x| f_map(cfg.k, *x)))).collect());
}

shape! {
    fn s_filter = "filter", family: "stateless";
    outs: 1, virtual_outs: 0, max_epochs: 2, held: "other";
    spec: u32 = |sim, _c| gen_u32(sim);
    make: |_e, s| *s;
    state: ();
    build: |env, _st, _ep| { let k = env.cfg.k; push::filter(move |x: &u32| f_pred(k, *x), sp::<u32>(env, 0)) };
    after_epoch: |_e, _s, _p| ();
    more_work: |_s| false;
    reference: |cfg, specs| ex1(Cmp::Seq, specs.iter().map(|ep| e64(ep.iter().copied().filter(|x| f_pred(cfg.k, *x)))).collect());
}

shape! {
    fn s_filter_map = "filter_map", family: "stateless";
    outs: 1, virtual_outs: 0, max_epochs: 2, held: "other";
    spec: u32 = |sim, _c| gen_u32(sim);
    make: |_e, s| *s;
    state: ();
    build: |env, _st, _ep| { let k = env.cfg.k; push::filter_map(move |x: u32| f_fm(k, x), sp::<u32>(env, 0)) };
    after_epoch: |_e, _s, _p| ();
    more_work: |_s| false;
    reference: |cfg, specs| ex1(Cmp::Seq, specs.iter().map(|ep| e64(ep.iter().filter_map(|x| f_fm(cfg.k, *x)))).collect());
}

shape! {
    fn s_flat_map = "flat_map", family: "flat_map";
    outs: 1, virtual_outs: 0, max_epochs: 2, held: "flat_map_buffer";
    spec: u32 = |sim, _c| gen_u32(sim);
    make: |_e, s| *s;
    state: ();
    build: |env, _st, _ep| { let k = env.cfg.k; push::flat_map(move |x: u32| f_inner(k, x), sp::<u32>(env, 0)) };
    after_epoch: |_e, _s, _p| ();
    more_work: |_s| false;
    reference: |cfg, specs| ex1(Cmp::Seq, specs.iter().map(|ep| e64(r_flat(cfg.k, ep))).collect());
}

shape! {
    fn s_flatten = "flatten", family: "flatten";
    outs: 1, virtual_outs: 0, max_epochs: 2, held: "flatten_buffer";
    spec: Vec<u32> = |sim, _c| gen_vec(sim);
    make: |_e, s| s.clone();
    state: ();
    build: |env, _st, _ep| push::flatten::<Vec<u32>, (), _>(sp::<u32>(env, 0));
    after_epoch: |_e, _s, _p| ();
    more_work: |_s| false;
    reference: |_cfg, specs| ex1(Cmp::Seq, specs.iter().map(|ep| e64(ep.iter().flatten().copied())).collect());
}

shape! {
    fn s_inspect = "inspect", family: "stateless";
    outs: 2, virtual_outs: 1, max_epochs: 2, held: "other";
    spec: u32 = |sim, _c| gen_u32(sim);
    make: |_e, s| *s;
    state: ();
    build: |env, _st, _ep| push::inspect(move |x: &u32| env.virt(1, *x as u64), sp::<u32>(env, 0));
    after_epoch: |_e, _s, _p| ();
    more_work: |_s| false;
    reference: |_cfg, specs| exn(vec![Cmp::Seq, Cmp::Seq], specs.iter().map(|ep| vec![e64(ep.iter().copied()), e64(ep.iter().copied())]).collect());
}

shape! {
    fn s_fanout = "fanout", family: "fanout";
    outs: 2, virtual_outs: 0, max_epochs: 2, held: "other";
    spec: u32 = |sim, _c| gen_u32(sim);
    make: |_e, s| *s;
    state: ();
    build: |env, _st, _ep| push::fanout(sp::<u32>(env, 0), sp::<u32>(env, 1));
    after_epoch: |_e, _s, _p| ();
    more_work: |_s| false;
    reference: |_cfg, specs| exn(vec![Cmp::Seq, Cmp::Seq], specs.iter().map(|ep| vec![e64(ep.iter().copied()), e64(ep.iter().copied())]).collect());
}

shape! {
    fn s_unzip = "unzip", family: "unzip";
    outs: 2, virtual_outs: 0, max_epochs: 2, held: "other";
    spec: (u32, u32) = |sim, _c| (gen_u32(sim), gen_u32(sim));
    make: |_e, s| *s;
    state: ();
    build: |env, _st, _ep| push::unzip(sp::<u32>(env, 0), sp::<u32>(env, 1));
    after_epoch: |_e, _s, _p| ();
    more_work: |_s| false;
    reference: |_cfg, specs| exn(vec![Cmp::Seq, Cmp::Seq], specs.iter().map(|ep| vec![e64(ep.iter().map(|p| p.0)), e64(ep.iter().map(|p| p.1))]).collect());
}

fn r_demux(n: usize, ep: &[(usize, u32)]) -> Vec<Vec<u64>> {
    (0..n).map(|i| e64(ep.iter().filter(|p| p.0 == i).map(|p| p.1))).collect()
}

shape! {
    fn s_demux2 = "demux_var2", family: "demux_var";
    outs: 2, virtual_outs: 0, max_epochs: 2, held: "other";
    spec: (usize, u32) = |sim, _c| (sim.choose("idx", 0, 1) as usize, gen_u32(sim));
    make: |_e, s| *s;
    state: ();
    build: |env, _st, _ep| push::demux_var(var_expr!(sp::<u32>(env, 0), sp::<u32>(env, 1)));
    after_epoch: |_e, _s, _p| ();
    more_work: |_s| false;
    reference: |_cfg, specs| exn(vec![Cmp::Seq; 2], specs.iter().map(|ep| r_demux(2, ep)).collect());
}

shape! {
    fn s_demux3 = "demux_var3", family: "demux_var";
    outs: 3, virtual_outs: 0, max_epochs: 2, held: "other";
    spec: (usize, u32) = |sim, _c| (sim.choose("idx", 0, 2) as usize, gen_u32(sim));
    make: |_e, s| *s;
    state: ();
    build: |env, _st, _ep| push::demux_var(var_expr!(sp::<u32>(env, 0), sp::<u32>(env, 1), sp::<u32>(env, 2)));
    after_epoch: |_e, _s, _p| ();
    more_work: |_s| false;
    reference: |_cfg, specs| exn(vec![Cmp::Seq; 3], specs.iter().map(|ep| r_demux(3, ep)).collect());
}

// fold with external accumulator, exactly as ops/fold.rs: fold(&mut acc, f, map(clone, out));
// mode = 'static (accumulator survives the tick) vs 'tick (reset in write_tick_end)
shape! {
    fn s_fold_ref = "fold_ref", family: "accumulate";
    outs: 1, virtual_outs: 0, max_epochs: 3, held: "accumulate_drain";
    spec: u32 = |sim, _c| gen_u32(sim);
    make: |_e, s| *s;
    state: u32;
    build: |env, st, _ep| push::fold(st, |acc: &mut u32, x: u32| f_fold(acc, x), push::map(|v: &mut u32| *v, sp::<u32>(env, 0)));
    after_epoch: |env, st, _p| if !env.cfg.mode { *st = 0 };
    more_work: |_s| false;
    reference: |cfg, specs| {
        let mut acc = 0u32;
        ex1(Cmp::Seq, specs.iter().map(|ep| {
            r_fold(&mut acc, ep);
            let out = vec![acc as u64];
            if !cfg.mode { acc = 0; }
            out
        }).collect())
    };
}

shape! {
    fn s_fold_owned = "fold_owned", family: "accumulate";
    outs: 1, virtual_outs: 0, max_epochs: 2, held: "accumulate_drain";
    spec: u32 = |sim, _c| gen_u32(sim);
    make: |_e, s| *s;
    state: ();
    build: |env, _st, _ep| { let k = env.cfg.k; push::fold(k, |acc: &mut u32, x: u32| f_fold(acc, x), sp::<u32>(env, 0)) };
    after_epoch: |_e, _s, _p| ();
    more_work: |_s| false;
    reference: |cfg, specs| ex1(Cmp::Seq, specs.iter().map(|ep| { let mut acc = cfg.k; r_fold(&mut acc, ep); vec![acc as u64] }).collect());
}

shape! {
    fn s_reduce_owned = "reduce_owned", family: "accumulate";
    outs: 1, virtual_outs: 0, max_epochs: 2, held: "accumulate_drain";
    spec: u32 = |sim, _c| gen_u32(sim);
    make: |_e, s| *s;
    state: ();
    build: |env, _st, _ep| {
        let init = if env.cfg.mode { Some(env.cfg.k) } else { None };
        push::reduce(init, |acc: &mut u32, x: u32| f_red(acc, x), sp::<u32>(env, 0))
    };
    after_epoch: |_e, _s, _p| ();
    more_work: |_s| false;
    reference: |cfg, specs| ex1(Cmp::Seq, specs.iter().map(|ep| {
        let mut acc = if cfg.mode { Some(cfg.k) } else { None };
        r_reduce(&mut acc, ep);
        e64(acc)
    }).collect());
}

// ops/reduce.rs: reduce_ref(&mut opt, f, map(clone, out))
shape! {
    fn s_reduce_ref = "reduce_ref", family: "accumulate";
    outs: 1, virtual_outs: 0, max_epochs: 3, held: "accumulate_drain";
    spec: u32 = |sim, _c| gen_u32(sim);
    make: |_e, s| *s;
    state: Option<u32>;
    build: |env, st, _ep| push::reduce_ref(st, |acc: &mut u32, x: u32| f_red(acc, x), push::map(|v: &mut u32| *v, sp::<u32>(env, 0)));
    after_epoch: |env, st, _p| if !env.cfg.mode { *st = None };
    more_work: |_s| false;
    reference: |cfg, specs| {
        let mut acc: Option<u32> = None;
        ex1(Cmp::Seq, specs.iter().map(|ep| {
            r_reduce(&mut acc, ep);
            let out = e64(acc);
            if !cfg.mode { acc = None; }
            out
        }).collect())
    };
}

shape! {
    fn s_sort = "sort", family: "sort";
    outs: 1, virtual_outs: 0, max_epochs: 2, held: "sort_drain";
    spec: u32 = |sim, _c| gen_u32(sim);
    make: |_e, s| *s;
    state: ();
    build: |env, _st, _ep| push::sort(sp::<u32>(env, 0));
    after_epoch: |_e, _s, _p| ();
    more_work: |_s| false;
    reference: |_cfg, specs| ex1(Cmp::Seq, specs.iter().map(|ep| e64(r_sorted(ep))).collect());
}

shape! {
    fn s_sort_state = "accumulate_sort_state", family: "accumulate";
    outs: 1, virtual_outs: 0, max_epochs: 2, held: "accumulate_drain";
    spec: u32 = |sim, _c| gen_u32(sim);
    make: |_e, s| *s;
    state: ();
    build: |env, _st, _ep| push::accumulate(push::SortState::new(), sp::<u32>(env, 0));
    after_epoch: |_e, _s, _p| ();
    more_work: |_s| false;
    reference: |_cfg, specs| ex1(Cmp::Seq, specs.iter().map(|ep| e64(r_sorted(ep))).collect());
}

// ops/fold_keyed.rs: FoldKeyed::new(&mut FxHashMap, init, f, out); 'static keeps the map,
// 'tick clears it in write_tick_end
shape! {
    fn s_fold_keyed = "fold_keyed", family: "keyed";
    outs: 1, virtual_outs: 0, max_epochs: 3, held: "keyed_flush";
    spec: (u32, u32) = |sim, _c| f_kv(gen_u32(sim));
    make: |_e, s| *s;
    state: FxHashMap<u32, u32>;
    build: |env, st, _ep| { let k = env.cfg.k; push::FoldKeyed::new(st, move || k, |acc: &mut u32, v: u32| f_fold(acc, v), sp::<(u32, u32)>(env, 0)) };
    after_epoch: |env, st, _p| if !env.cfg.mode { st.clear() };
    more_work: |_s| false;
    reference: |cfg, specs| {
        let mut map = BTreeMap::new();
        ex1(Cmp::Bag, specs.iter().map(|ep| {
            let out = r_keyed_fold(&mut map, cfg.k, ep);
            if !cfg.mode { map.clear(); }
            out
        }).collect())
    };
}

shape! {
    fn s_reduce_keyed = "reduce_keyed", family: "keyed";
    outs: 1, virtual_outs: 0, max_epochs: 3, held: "keyed_flush";
    spec: (u32, u32) = |sim, _c| f_kv(gen_u32(sim));
    make: |_e, s| *s;
    state: FxHashMap<u32, u32>;
    build: |env, st, _ep| push::ReduceKeyed::new(st, |acc: &mut u32, v: u32| f_red(acc, v), sp::<(u32, u32)>(env, 0));
    after_epoch: |env, st, _p| if !env.cfg.mode { st.clear() };
    more_work: |_s| false;
    reference: |cfg, specs| {
        let mut map = BTreeMap::new();
        ex1(Cmp::Bag, specs.iter().map(|ep| {
            let out = r_keyed_reduce(&mut map, ep);
            if !cfg.mode { map.clear(); }
            out
        }).collect())
    };
}

// ops/persist.rs: persist_state(&mut vec, replay, out) — generated code passes replay = true;
// the API also allows false (only new items are forwarded), flags[ep] draws it per epoch
shape! {
    fn s_persist = "persist", family: "persist";
    outs: 1, virtual_outs: 0, max_epochs: 3, held: "persist_replay";
    spec: u32 = |sim, _c| gen_u32(sim);
    make: |_e, s| *s;
    state: Vec<u32>;
    build: |env, st, ep| push::persist_state(st, env.cfg.flags[ep], sp::<u32>(env, 0));
    after_epoch: |_e, _s, _p| ();
    more_work: |_s| false;
    reference: |cfg, specs| {
        let mut p = RPersist::default();
        ex1(Cmp::Seq, specs.iter().enumerate().map(|(i, ep)| e64(p.step(cfg.flags[i], ep))).collect())
    };
}

// persist exactly as generated (replay always on)
shape! {
    fn s_persist_gen = "persist_replay_always", family: "persist";
    outs: 1, virtual_outs: 0, max_epochs: 3, held: "persist_replay";
    spec: u32 = |sim, _c| gen_u32(sim);
    make: |_e, s| *s;
    state: Vec<u32>;
    build: |env, st, _ep| push::persist_state(st, true, sp::<u32>(env, 0));
    after_epoch: |_e, _s, _p| ();
    more_work: |_s| false;
    reference: |_cfg, specs| {
        let mut p = RPersist::default();
        ex1(Cmp::Seq, specs.iter().map(|ep| e64(p.step(true, ep))).collect())
    };
}

// ops/resolve_futures.rs, blocking flavour (no subgraph waker): everything resolves in the tick
shape! {
    fn s_rf_ordered_blocking = "resolve_futures_ordered_blocking", family: "resolve_futures_blocking";
    outs: 1, virtual_outs: 0, max_epochs: 2, held: "resolve_futures_queue";
    spec: u32 = |sim, _c| gen_u32(sim);
    make: |env, s| SimFuture::new(env, *s);
    state: FuturesOrdered<SimFuture<'_, u32>>;
    build: |env, st, _ep| push::resolve_futures_state(st, None, sp::<u32>(env, 0));
    after_epoch: |_e, _s, _p| ();
    more_work: |_s| false;
    reference: |_cfg, specs| ex1(Cmp::Seq, specs.iter().map(|ep| e64(ep.iter().copied())).collect());
}

shape! {
    fn s_rf_unordered_blocking = "resolve_futures_unordered_blocking", family: "resolve_futures_blocking";
    outs: 1, virtual_outs: 0, max_epochs: 2, held: "resolve_futures_queue";
    spec: u32 = |sim, _c| gen_u32(sim);
    make: |env, s| SimFuture::new(env, *s);
    state: FuturesUnordered<SimFuture<'_, u32>>;
    build: |env, st, _ep| push::resolve_futures_state(st, None, sp::<u32>(env, 0));
    after_epoch: |_e, _s, _p| ();
    more_work: |_s| false;
    reference: |_cfg, specs| ex1(Cmp::Bag, specs.iter().map(|ep| e64(ep.iter().copied())).collect());
}

// non-blocking flavour: the queue is polled with the subgraph waker, unresolved futures surface
// in later ticks (extra input-less epochs run whenever the subgraph waker fired)
shape! {
    fn s_rf_ordered_waker = "resolve_futures_ordered_waker", family: "resolve_futures_nonblocking";
    outs: 1, virtual_outs: 0, max_epochs: 3, held: "resolve_futures_queue";
    spec: u32 = |sim, _c| gen_u32(sim);
    make: |env, s| SimFuture::new(env, *s);
    state: FuturesOrdered<SimFuture<'_, u32>>;
    build: |env, st, _ep| push::resolve_futures_state(st, Some(subgraph_waker(env)), sp::<u32>(env, 0));
    after_epoch: |_e, _s, _p| ();
    more_work: |st| !st.is_empty();
    reference: |_cfg, specs| ex1(Cmp::RunSeq, specs.iter().map(|ep| e64(ep.iter().copied())).collect());
}

shape! {
    fn s_rf_unordered_waker = "resolve_futures_unordered_waker", family: "resolve_futures_nonblocking";
    outs: 1, virtual_outs: 0, max_epochs: 3, held: "resolve_futures_queue";
    spec: u32 = |sim, _c| gen_u32(sim);
    make: |env, s| SimFuture::new(env, *s);
    state: FuturesUnordered<SimFuture<'_, u32>>;
    build: |env, st, _ep| push::resolve_futures_state(st, Some(subgraph_waker(env)), sp::<u32>(env, 0));
    after_epoch: |_e, _s, _p| ();
    more_work: |st| !st.is_empty();
    reference: |_cfg, specs| ex1(Cmp::RunBag, specs.iter().map(|ep| e64(ep.iter().copied())).collect());
}

// ops/dest_sink.rs: push::sink(si)
shape! {
    fn s_sink = "sink", family: "sink";
    outs: 1, virtual_outs: 0, max_epochs: 2, held: "other";
    spec: u32 = |sim, _c| gen_u32(sim);
    make: |_e, s| *s;
    state: ();
    build: |env, _st, _ep| push::sink(sp::<u32>(env, 0));
    after_epoch: |_e, _s, _p| ();
    more_work: |_s| false;
    reference: |_cfg, specs| ex1(Cmp::Seq, specs.iter().map(|ep| e64(ep.iter().copied())).collect());
}

// SinkCompat driven through the Sink protocol (poll_ready / start_send / poll_close)
shape! {
    fn s_sink_compat = "sink_compat", family: "sink_compat";
    outs: 1, virtual_outs: 0, max_epochs: 2, held: "other";
    spec: u32 = |sim, _c| gen_u32(sim);
    make: |_e, s| *s;
    state: ();
    build: |env, _st, _ep| { let k = env.cfg.k; SinkAsPush::new(env, push::sink_compat::<_, u32>(push::map(move |x: u32| f_map(k, x), sp::<u32>(env, 0)))) };
    after_epoch: |_e, _s, _p| ();
    more_work: |_s| false;
    reference: |cfg, specs| ex1(Cmp::Seq, specs.iter().map(|ep| e64(ep.iter().map(|x| f_map(cfg.k, *x)))).collect());
}

shape! {
    fn s_filter_map_async = "filter_map_async", family: "filter_map_async";
    outs: 1, virtual_outs: 0, max_epochs: 2, held: "filter_map_async_resolved";
    spec: u32 = |sim, _c| gen_u32(sim);
    make: |_e, s| *s;
    state: ();
    build: |env, _st, _ep| { let k = env.cfg.k; push::filter_map_async(move |x: u32| SimFuture::new(env, f_fm(k, x)), sp::<u32>(env, 0)) };
    after_epoch: |_e, _s, _p| ();
    more_work: |_s| false;
    reference: |cfg, specs| ex1(Cmp::Seq, specs.iter().map(|ep| e64(ep.iter().filter_map(|x| f_fm(cfg.k, *x)))).collect());
}

shape! {
    fn s_flat_map_stream = "flat_map_stream", family: "flat_map_stream";
    outs: 1, virtual_outs: 0, max_epochs: 2, held: "flat_map_stream_item";
    spec: u32 = |sim, _c| gen_u32(sim);
    make: |_e, s| *s;
    state: ();
    build: |env, _st, _ep| { let k = env.cfg.k; push::flat_map_stream(move |x: u32| SimStream::new(env, f_inner(k, x)), sp::<u32>(env, 0)) };
    after_epoch: |_e, _s, _p| ();
    more_work: |_s| false;
    reference: |cfg, specs| ex1(Cmp::Seq, specs.iter().map(|ep| e64(r_flat(cfg.k, ep))).collect());
}

shape! {
    fn s_flatten_stream = "flatten_stream", family: "flatten_stream";
    outs: 1, virtual_outs: 0, max_epochs: 2, held: "flatten_stream_item";
    spec: Vec<u32> = |sim, _c| gen_vec(sim);
    make: |env, s| SimStream::new(env, s.clone());
    state: ();
    build: |env, _st, _ep| push::flatten_stream::<SimStream<'_>, (), _>(sp::<u32>(env, 0));
    after_epoch: |_e, _s, _p| ();
    more_work: |_s| false;
    reference: |_cfg, specs| ex1(Cmp::Seq, specs.iter().map(|ep| e64(ep.iter().flatten().copied())).collect());
}

// terminal combinators: observed through a virtual downstream
shape! {
    fn s_vec_push = "vec_push", family: "terminal";
    outs: 1, virtual_outs: 1, max_epochs: 2, held: "other";
    spec: u32 = |sim, _c| gen_u32(sim);
    make: |_e, s| *s;
    state: Vec<u32>;
    build: |_env, st, _ep| push::vec_push(st);
    after_epoch: |env, st, _p| for x in st.drain(..) { env.virt(0, x as u64) };
    more_work: |_s| false;
    reference: |_cfg, specs| ex1(Cmp::Seq, specs.iter().map(|ep| e64(ep.iter().copied())).collect());
}

shape! {
    fn s_for_each = "map_for_each", family: "terminal";
    outs: 1, virtual_outs: 1, max_epochs: 2, held: "other";
    spec: u32 = |sim, _c| gen_u32(sim);
    make: |_e, s| *s;
    state: ();
    build: |env, _st, _ep| { let k = env.cfg.k; push::map(move |x: u32| f_map(k, x), push::for_each(move |x: u32| env.virt(0, x as u64))) };
    after_epoch: |_e, _s, _p| ();
    more_work: |_s| false;
    reference: |cfg, specs| ex1(Cmp::Seq, specs.iter().map(|ep| e64(ep.iter().map(|x| f_map(cfg.k, *x)))).collect());
}

// ops/state_by.rs: state_push(items_out, state_out, by_fn, &mut lattice); 'tick resets the
// lattice in write_tick_end
fn r_state(cfg: &Cfg, specs: &[Vec<u32>], pre: impl Fn(&[u32]) -> Vec<u32>, post: impl Fn(Vec<u32>) -> Vec<u32>) -> Vec<Vec<Vec<u64>>> {
    let mut max = 0u32;
    specs
        .iter()
        .map(|ep| {
            let mut changed = Vec::new();
            for x in pre(ep) {
                if x > max {
                    max = x;
                    changed.push(x);
                }
            }
            let out = vec![e64(post(changed)), vec![max as u64]];
            if !cfg.mode {
                max = 0;
            }
            out
        })
        .collect()
}

shape! {
    fn s_state_push = "state_push", family: "state_push";
    outs: 2, virtual_outs: 0, max_epochs: 3, held: "other";
    spec: u32 = |sim, _c| gen_u32(sim);
    make: |_e, s| *s;
    state: Max<u32>;
    build: |env, st, _ep| push::state_push(sp::<u32>(env, 0), sp::<Max<u32>>(env, 1), |x: u32| Max::new(x), st);
    after_epoch: |env, st, _p| if !env.cfg.mode { *st = Default::default() };
    more_work: |_s| false;
    reference: |cfg, specs| exn(vec![Cmp::Seq, Cmp::Seq], r_state(cfg, specs, |ep| ep.to_vec(), |c| c));
}

// ------------------------------------------------------------------------------------------
// compositions

// flat_map -> fanout(persist -> A, fold -> B)
shape! {
    fn c_flat_fan_persist_fold = "flat_map>fanout(persist,fold)", family: "flat_map";
    outs: 2, virtual_outs: 0, max_epochs: 3, held: "flat_map_buffer";
    spec: u32 = |sim, _c| gen_u32(sim);
    make: |_e, s| *s;
    state: (Vec<u32>, u32);
    build: |env, st, ep| {
        let k = env.cfg.k;
        let (buf, acc) = (&mut st.0, &mut st.1);
        push::flat_map(
            move |x: u32| f_inner(k, x),
            push::fanout(
                push::persist_state(buf, env.cfg.flags[ep], sp::<u32>(env, 0)),
                push::fold(acc, |a: &mut u32, x: u32| f_fold(a, x), push::map(|v: &mut u32| *v, sp::<u32>(env, 1))),
            ),
        )
    };
    after_epoch: |_e, _s, _p| ();
    more_work: |_s| false;
    reference: |cfg, specs| {
        let mut p = RPersist::default();
        let mut acc = 0u32;
        exn(vec![Cmp::Seq, Cmp::Seq], specs.iter().enumerate().map(|(i, ep)| {
            let y = r_flat(cfg.k, ep);
            r_fold(&mut acc, &y);
            vec![e64(p.step(cfg.flags[i], &y)), vec![acc as u64]]
        }).collect())
    };
}

// unzip(flatten -> A, sort -> B)
shape! {
    fn c_unzip_flatten_sort = "unzip(flatten,sort)", family: "unzip";
    outs: 2, virtual_outs: 0, max_epochs: 2, held: "flatten_buffer";
    spec: (Vec<u32>, u32) = |sim, _c| (gen_vec(sim), gen_u32(sim));
    make: |_e, s| s.clone();
    state: ();
    build: |env, _st, _ep| push::unzip(push::flatten::<Vec<u32>, (), _>(sp::<u32>(env, 0)), push::sort(sp::<u32>(env, 1)));
    after_epoch: |_e, _s, _p| ();
    more_work: |_s| false;
    reference: |_cfg, specs| exn(vec![Cmp::Seq, Cmp::Seq], specs.iter().map(|ep| {
        let b: Vec<u32> = ep.iter().map(|p| p.1).collect();
        vec![e64(ep.iter().flat_map(|p| p.0.iter().copied())), e64(r_sorted(&b))]
    }).collect());
}

// demux_var(filter -> A, flat_map -> B, C)
shape! {
    fn c_demux_filter_flat = "demux_var(filter,flat_map,id)", family: "demux_var";
    outs: 3, virtual_outs: 0, max_epochs: 2, held: "flat_map_buffer";
    spec: (usize, u32) = |sim, _c| (sim.choose("idx", 0, 2) as usize, gen_u32(sim));
    make: |_e, s| *s;
    state: ();
    build: |env, _st, _ep| {
        let k = env.cfg.k;
        push::demux_var(var_expr!(
            push::filter(move |x: &u32| f_pred(k, *x), sp::<u32>(env, 0)),
            push::flat_map(move |x: u32| f_inner(k, x), sp::<u32>(env, 1)),
            sp::<u32>(env, 2)
        ))
    };
    after_epoch: |_e, _s, _p| ();
    more_work: |_s| false;
    reference: |cfg, specs| exn(vec![Cmp::Seq; 3], specs.iter().map(|ep| {
        let leg = |i: usize| -> Vec<u32> { ep.iter().filter(|p| p.0 == i).map(|p| p.1).collect() };
        vec![e64(leg(0).into_iter().filter(|x| f_pred(cfg.k, *x))), e64(r_flat(cfg.k, &leg(1))), e64(leg(2))]
    }).collect());
}

shape! {
    fn c_map_filter_flat = "map>filter>flat_map", family: "flat_map";
    outs: 1, virtual_outs: 0, max_epochs: 2, held: "flat_map_buffer";
    spec: u32 = |sim, _c| gen_u32(sim);
    make: |_e, s| *s;
    state: ();
    build: |env, _st, _ep| {
        let k = env.cfg.k;
        push::map(move |x: u32| f_map(k, x), push::filter(move |x: &u32| f_pred(k, *x), push::flat_map(move |x: u32| f_inner(k, x), sp::<u32>(env, 0))))
    };
    after_epoch: |_e, _s, _p| ();
    more_work: |_s| false;
    reference: |cfg, specs| ex1(Cmp::Seq, specs.iter().map(|ep| {
        let v: Vec<u32> = ep.iter().map(|x| f_map(cfg.k, *x)).filter(|x| f_pred(cfg.k, *x)).collect();
        e64(r_flat(cfg.k, &v))
    }).collect());
}

// two buffering legs under one fanout
shape! {
    fn c_fan_flat_flat = "fanout(flat_map,flat_map)", family: "fanout";
    outs: 2, virtual_outs: 0, max_epochs: 2, held: "flat_map_buffer";
    spec: u32 = |sim, _c| gen_u32(sim);
    make: |_e, s| *s;
    state: ();
    build: |env, _st, _ep| {
        let k = env.cfg.k;
        push::fanout(push::flat_map(move |x: u32| f_inner(k, x), sp::<u32>(env, 0)), push::flat_map(move |x: u32| f_inner(k + 1, x), sp::<u32>(env, 1)))
    };
    after_epoch: |_e, _s, _p| ();
    more_work: |_s| false;
    reference: |cfg, specs| exn(vec![Cmp::Seq; 2], specs.iter().map(|ep| vec![e64(r_flat(cfg.k, ep)), e64(r_flat(cfg.k + 1, ep))]).collect());
}

shape! {
    fn c_fan_fan = "fanout(fanout(a,b),c)", family: "fanout";
    outs: 3, virtual_outs: 0, max_epochs: 2, held: "other";
    spec: u32 = |sim, _c| gen_u32(sim);
    make: |_e, s| *s;
    state: ();
    build: |env, _st, _ep| push::fanout(push::fanout(sp::<u32>(env, 0), sp::<u32>(env, 1)), sp::<u32>(env, 2));
    after_epoch: |_e, _s, _p| ();
    more_work: |_s| false;
    reference: |_cfg, specs| exn(vec![Cmp::Seq; 3], specs.iter().map(|ep| vec![e64(ep.iter().copied()); 3]).collect());
}

shape! {
    fn c_flat_reduce_keyed = "flat_map>reduce_keyed", family: "keyed";
    outs: 1, virtual_outs: 0, max_epochs: 3, held: "keyed_flush";
    spec: u32 = |sim, _c| gen_u32(sim);
    make: |_e, s| *s;
    state: FxHashMap<u32, u32>;
    build: |env, st, _ep| {
        let k = env.cfg.k;
        push::flat_map(
            move |x: u32| f_inner(k, x).into_iter().map(f_kv).collect::<Vec<(u32, u32)>>(),
            push::ReduceKeyed::new(st, |acc: &mut u32, v: u32| f_red(acc, v), sp::<(u32, u32)>(env, 0)),
        )
    };
    after_epoch: |_e, _s, _p| ();
    more_work: |_s| false;
    reference: |cfg, specs| {
        let mut map = BTreeMap::new();
        ex1(Cmp::Bag, specs.iter().map(|ep| {
            let kvs: Vec<(u32, u32)> = r_flat(cfg.k, ep).into_iter().map(f_kv).collect();
            r_keyed_reduce(&mut map, &kvs)
        }).collect())
    };
}

shape! {
    fn c_persist_flat = "persist>flat_map", family: "persist";
    outs: 1, virtual_outs: 0, max_epochs: 3, held: "flat_map_buffer";
    spec: u32 = |sim, _c| gen_u32(sim);
    make: |_e, s| *s;
    state: Vec<u32>;
    build: |env, st, ep| { let k = env.cfg.k; push::persist_state(st, env.cfg.flags[ep], push::flat_map(move |x: u32| f_inner(k, x), sp::<u32>(env, 0))) };
    after_epoch: |_e, _s, _p| ();
    more_work: |_s| false;
    reference: |cfg, specs| {
        let mut p = RPersist::default();
        ex1(Cmp::Seq, specs.iter().enumerate().map(|(i, ep)| e64(r_flat(cfg.k, &p.step(cfg.flags[i], ep)))).collect())
    };
}

shape! {
    fn c_flat_persist = "flat_map>persist", family: "persist";
    outs: 1, virtual_outs: 0, max_epochs: 3, held: "persist_replay";
    spec: u32 = |sim, _c| gen_u32(sim);
    make: |_e, s| *s;
    state: Vec<u32>;
    build: |env, st, ep| { let k = env.cfg.k; push::flat_map(move |x: u32| f_inner(k, x), push::persist_state(st, env.cfg.flags[ep], sp::<u32>(env, 0))) };
    after_epoch: |_e, _s, _p| ();
    more_work: |_s| false;
    reference: |cfg, specs| {
        let mut p = RPersist::default();
        ex1(Cmp::Seq, specs.iter().enumerate().map(|(i, ep)| e64(p.step(cfg.flags[i], &r_flat(cfg.k, ep)))).collect())
    };
}

shape! {
    fn c_sort_flat = "sort>flat_map", family: "sort";
    outs: 1, virtual_outs: 0, max_epochs: 2, held: "sort_drain";
    spec: u32 = |sim, _c| gen_u32(sim);
    make: |_e, s| *s;
    state: ();
    build: |env, _st, _ep| { let k = env.cfg.k; push::sort(push::flat_map(move |x: u32| f_inner(k, x), sp::<u32>(env, 0))) };
    after_epoch: |_e, _s, _p| ();
    more_work: |_s| false;
    reference: |cfg, specs| ex1(Cmp::Seq, specs.iter().map(|ep| e64(r_flat(cfg.k, &r_sorted(ep)))).collect());
}

shape! {
    fn c_fma_flat = "filter_map_async>flat_map", family: "filter_map_async";
    outs: 1, virtual_outs: 0, max_epochs: 2, held: "flat_map_buffer";
    spec: u32 = |sim, _c| gen_u32(sim);
    make: |_e, s| *s;
    state: ();
    build: |env, _st, _ep| {
        let k = env.cfg.k;
        push::filter_map_async(move |x: u32| SimFuture::new(env, f_fm(k, x)), push::flat_map(move |x: u32| f_inner(k, x), sp::<u32>(env, 0)))
    };
    after_epoch: |_e, _s, _p| ();
    more_work: |_s| false;
    reference: |cfg, specs| ex1(Cmp::Seq, specs.iter().map(|ep| {
        let v: Vec<u32> = ep.iter().filter_map(|x| f_fm(cfg.k, *x)).collect();
        e64(r_flat(cfg.k, &v))
    }).collect());
}

// map(make future) -> resolve_futures (blocking, ordered) -> flat_map
shape! {
    fn c_map_rf_flat = "map>resolve_futures_blocking>flat_map", family: "resolve_futures_blocking";
    outs: 1, virtual_outs: 0, max_epochs: 2, held: "flat_map_buffer";
    spec: u32 = |sim, _c| gen_u32(sim);
    make: |_e, s| *s;
    state: FuturesOrdered<SimFuture<'_, u32>>;
    build: |env, st, _ep| {
        let k = env.cfg.k;
        push::map(move |x: u32| SimFuture::new(env, x), push::resolve_futures_state(st, None, push::flat_map(move |x: u32| f_inner(k, x), sp::<u32>(env, 0))))
    };
    after_epoch: |_e, _s, _p| ();
    more_work: |_s| false;
    reference: |cfg, specs| ex1(Cmp::Seq, specs.iter().map(|ep| e64(r_flat(cfg.k, ep))).collect());
}

// resolve_futures (non-blocking, ordered) -> flat_map
shape! {
    fn c_rf_waker_flat = "resolve_futures_ordered_waker>flat_map", family: "resolve_futures_nonblocking";
    outs: 1, virtual_outs: 0, max_epochs: 3, held: "flat_map_buffer";
    spec: u32 = |sim, _c| gen_u32(sim);
    make: |env, s| SimFuture::new(env, *s);
    state: FuturesOrdered<SimFuture<'_, u32>>;
    build: |env, st, _ep| {
        let k = env.cfg.k;
        push::resolve_futures_state(st, Some(subgraph_waker(env)), push::flat_map(move |x: u32| f_inner(k, x), sp::<u32>(env, 0)))
    };
    after_epoch: |_e, _s, _p| ();
    more_work: |st| !st.is_empty();
    reference: |cfg, specs| ex1(Cmp::RunSeq, specs.iter().map(|ep| e64(r_flat(cfg.k, ep))).collect());
}

shape! {
    fn c_fms_fan = "flat_map_stream>fanout", family: "flat_map_stream";
    outs: 2, virtual_outs: 0, max_epochs: 2, held: "flat_map_stream_item";
    spec: u32 = |sim, _c| gen_u32(sim);
    make: |_e, s| *s;
    state: ();
    build: |env, _st, _ep| { let k = env.cfg.k; push::flat_map_stream(move |x: u32| SimStream::new(env, f_inner(k, x)), push::fanout(sp::<u32>(env, 0), sp::<u32>(env, 1))) };
    after_epoch: |_e, _s, _p| ();
    more_work: |_s| false;
    reference: |cfg, specs| exn(vec![Cmp::Seq; 2], specs.iter().map(|ep| vec![e64(r_flat(cfg.k, ep)); 2]).collect());
}

shape! {
    fn c_fma_fan = "filter_map_async>fanout", family: "filter_map_async";
    outs: 2, virtual_outs: 0, max_epochs: 2, held: "filter_map_async_resolved";
    spec: u32 = |sim, _c| gen_u32(sim);
    make: |_e, s| *s;
    state: ();
    build: |env, _st, _ep| { let k = env.cfg.k; push::filter_map_async(move |x: u32| SimFuture::new(env, f_fm(k, x)), push::fanout(sp::<u32>(env, 0), sp::<u32>(env, 1))) };
    after_epoch: |_e, _s, _p| ();
    more_work: |_s| false;
    reference: |cfg, specs| exn(vec![Cmp::Seq; 2], specs.iter().map(|ep| vec![e64(ep.iter().filter_map(|x| f_fm(cfg.k, *x))); 2]).collect());
}

shape! {
    fn c_unzip_fold_persist = "unzip(fold,persist)", family: "unzip";
    outs: 2, virtual_outs: 0, max_epochs: 3, held: "persist_replay";
    spec: (u32, u32) = |sim, _c| (gen_u32(sim), gen_u32(sim));
    make: |_e, s| *s;
    state: (u32, Vec<u32>);
    build: |env, st, ep| {
        let (acc, buf) = (&mut st.0, &mut st.1);
        push::unzip(
            push::fold(acc, |a: &mut u32, x: u32| f_fold(a, x), push::map(|v: &mut u32| *v, sp::<u32>(env, 0))),
            push::persist_state(buf, env.cfg.flags[ep], sp::<u32>(env, 1)),
        )
    };
    after_epoch: |_e, _s, _p| ();
    more_work: |_s| false;
    reference: |cfg, specs| {
        let mut p = RPersist::default();
        let mut acc = 0u32;
        exn(vec![Cmp::Seq; 2], specs.iter().enumerate().map(|(i, ep)| {
            let a: Vec<u32> = ep.iter().map(|p| p.0).collect();
            let b: Vec<u32> = ep.iter().map(|p| p.1).collect();
            r_fold(&mut acc, &a);
            vec![vec![acc as u64], e64(p.step(cfg.flags[i], &b))]
        }).collect())
    };
}

shape! {
    fn c_fan_sink_sort = "fanout(sink,sort)", family: "fanout";
    outs: 2, virtual_outs: 0, max_epochs: 2, held: "sort_drain";
    spec: u32 = |sim, _c| gen_u32(sim);
    make: |_e, s| *s;
    state: ();
    build: |env, _st, _ep| push::fanout(push::sink(sp::<u32>(env, 0)), push::sort(sp::<u32>(env, 1)));
    after_epoch: |_e, _s, _p| ();
    more_work: |_s| false;
    reference: |_cfg, specs| exn(vec![Cmp::Seq; 2], specs.iter().map(|ep| vec![e64(ep.iter().copied()), e64(r_sorted(ep))]).collect());
}

// ops/sort_by_key.rs expansion: fold(Vec::new(), push, flat_map(sort, out))
shape! {
    fn c_sort_by_key = "sort_by_key_expansion", family: "accumulate";
    outs: 1, virtual_outs: 0, max_epochs: 2, held: "flat_map_buffer";
    spec: u32 = |sim, _c| gen_u32(sim);
    make: |_e, s| *s;
    state: ();
    build: |env, _st, _ep| push::fold(
        Vec::new(),
        |buf: &mut Vec<u32>, x: u32| buf.push(x),
        push::flat_map(|buf: Vec<u32>| { let mut buf = buf; buf.sort_unstable(); buf }, sp::<u32>(env, 0)),
    );
    after_epoch: |_e, _s, _p| ();
    more_work: |_s| false;
    reference: |_cfg, specs| ex1(Cmp::Seq, specs.iter().map(|ep| e64(r_sorted(ep))).collect());
}

shape! {
    fn c_demux_sort_persist = "demux_var(sort,persist)", family: "demux_var";
    outs: 2, virtual_outs: 0, max_epochs: 3, held: "persist_replay";
    spec: (usize, u32) = |sim, _c| (sim.choose("idx", 0, 1) as usize, gen_u32(sim));
    make: |_e, s| *s;
    state: Vec<u32>;
    build: |env, st, ep| push::demux_var(var_expr!(push::sort(sp::<u32>(env, 0)), push::persist_state(st, env.cfg.flags[ep], sp::<u32>(env, 1))));
    after_epoch: |_e, _s, _p| ();
    more_work: |_s| false;
    reference: |cfg, specs| {
        let mut p = RPersist::default();
        exn(vec![Cmp::Seq; 2], specs.iter().enumerate().map(|(i, ep)| {
            let a: Vec<u32> = ep.iter().filter(|p| p.0 == 0).map(|p| p.1).collect();
            let b: Vec<u32> = ep.iter().filter(|p| p.0 == 1).map(|p| p.1).collect();
            vec![e64(r_sorted(&a)), e64(p.step(cfg.flags[i], &b))]
        }).collect())
    };
}

// downstreams with different context types under one fanout: Ctx=() and Ctx=task::Context
shape! {
    fn c_fan_mixed_ctx = "fanout(sync_ctx,task_ctx)", family: "fanout";
    outs: 2, virtual_outs: 0, max_epochs: 2, held: "other";
    spec: u32 = |sim, _c| gen_u32(sim);
    make: |_e, s| *s;
    state: ();
    build: |env, _st, _ep| push::fanout(sps::<u32>(env, 0), sp::<u32>(env, 1));
    after_epoch: |_e, _s, _p| ();
    more_work: |_s| false;
    reference: |_cfg, specs| exn(vec![Cmp::Seq; 2], specs.iter().map(|ep| vec![e64(ep.iter().copied()); 2]).collect());
}

shape! {
    fn c_flat_sync_ctx = "flat_map>sync_ctx", family: "flat_map";
    outs: 1, virtual_outs: 0, max_epochs: 2, held: "flat_map_buffer";
    spec: u32 = |sim, _c| gen_u32(sim);
    make: |_e, s| *s;
    state: ();
    build: |env, _st, _ep| { let k = env.cfg.k; push::flat_map(move |x: u32| f_inner(k, x), sps::<u32>(env, 0)) };
    after_epoch: |_e, _s, _p| ();
    more_work: |_s| false;
    reference: |cfg, specs| ex1(Cmp::Seq, specs.iter().map(|ep| e64(r_flat(cfg.k, ep))).collect());
}

shape! {
    fn c_fan_vec_push = "fanout(a,vec_push)", family: "fanout";
    outs: 2, virtual_outs: 1, max_epochs: 2, held: "other";
    spec: u32 = |sim, _c| gen_u32(sim);
    make: |_e, s| *s;
    state: Vec<u32>;
    build: |env, st, _ep| push::fanout(sp::<u32>(env, 0), push::vec_push(st));
    after_epoch: |env, st, _p| for x in st.drain(..) { env.virt(1, x as u64) };
    more_work: |_s| false;
    reference: |_cfg, specs| exn(vec![Cmp::Seq; 2], specs.iter().map(|ep| vec![e64(ep.iter().copied()); 2]).collect());
}

// flatten -> fanout(filter_map -> A, reduce -> B)
shape! {
    fn c_flatten_fan_fm_reduce = "flatten>fanout(filter_map,reduce)", family: "flatten";
    outs: 2, virtual_outs: 0, max_epochs: 2, held: "flatten_buffer";
    spec: Vec<u32> = |sim, _c| gen_vec(sim);
    make: |_e, s| s.clone();
    state: ();
    build: |env, _st, _ep| {
        let k = env.cfg.k;
        push::flatten::<Vec<u32>, (), _>(push::fanout(
            push::filter_map(move |x: u32| f_fm(k, x), sp::<u32>(env, 0)),
            push::reduce(None, |a: &mut u32, x: u32| f_red(a, x), sp::<u32>(env, 1)),
        ))
    };
    after_epoch: |_e, _s, _p| ();
    more_work: |_s| false;
    reference: |cfg, specs| exn(vec![Cmp::Seq; 2], specs.iter().map(|ep| {
        let y: Vec<u32> = ep.iter().flatten().copied().collect();
        let mut acc = None;
        r_reduce(&mut acc, &y);
        vec![e64(y.iter().filter_map(|x| f_fm(cfg.k, *x))), e64(acc)]
    }).collect());
}

// state_push(flat_map -> A, B)
shape! {
    fn c_state_flat = "state_push(flat_map,state)", family: "state_push";
    outs: 2, virtual_outs: 0, max_epochs: 3, held: "flat_map_buffer";
    spec: u32 = |sim, _c| gen_u32(sim);
    make: |_e, s| *s;
    state: Max<u32>;
    build: |env, st, _ep| { let k = env.cfg.k; push::state_push(push::flat_map(move |x: u32| f_inner(k, x), sp::<u32>(env, 0)), sp::<Max<u32>>(env, 1), |x: u32| Max::new(x), st) };
    after_epoch: |env, st, _p| if !env.cfg.mode { *st = Default::default() };
    more_work: |_s| false;
    reference: |cfg, specs| exn(vec![Cmp::Seq; 2], r_state(cfg, specs, |ep| ep.to_vec(), |c| r_flat(cfg.k, &c)));
}

shape! {
    fn c_persist_fan = "persist>fanout", family: "persist";
    outs: 2, virtual_outs: 0, max_epochs: 3, held: "persist_replay";
    spec: u32 = |sim, _c| gen_u32(sim);
    make: |_e, s| *s;
    state: Vec<u32>;
    build: |env, st, ep| push::persist_state(st, env.cfg.flags[ep], push::fanout(sp::<u32>(env, 0), sp::<u32>(env, 1)));
    after_epoch: |_e, _s, _p| ();
    more_work: |_s| false;
    reference: |cfg, specs| {
        let mut p = RPersist::default();
        exn(vec![Cmp::Seq; 2], specs.iter().enumerate().map(|(i, ep)| vec![e64(p.step(cfg.flags[i], ep)); 2]).collect())
    };
}

shape! {
    fn c_sink_compat_fan_flat = "sink_compat(fanout(a,flat_map))", family: "sink_compat";
    outs: 2, virtual_outs: 0, max_epochs: 2, held: "flat_map_buffer";
    spec: u32 = |sim, _c| gen_u32(sim);
    make: |_e, s| *s;
    state: ();
    build: |env, _st, _ep| {
        let k = env.cfg.k;
        SinkAsPush::new(env, push::sink_compat::<_, u32>(push::fanout(sp::<u32>(env, 0), push::flat_map(move |x: u32| f_inner(k, x), sp::<u32>(env, 1)))))
    };
    after_epoch: |_e, _s, _p| ();
    more_work: |_s| false;
    reference: |cfg, specs| exn(vec![Cmp::Seq; 2], specs.iter().map(|ep| vec![e64(ep.iter().copied()), e64(r_flat(cfg.k, ep))]).collect());
}

shape! {
    fn c_flat_unzip = "flat_map>unzip", family: "flat_map";
    outs: 2, virtual_outs: 0, max_epochs: 2, held: "flat_map_buffer";
    spec: u32 = |sim, _c| gen_u32(sim);
    make: |_e, s| *s;
    state: ();
    build: |env, _st, _ep| {
        let k = env.cfg.k;
        push::flat_map(move |x: u32| f_inner(k, x).into_iter().map(|y| (y, y % 5)).collect::<Vec<(u32, u32)>>(), push::unzip(sp::<u32>(env, 0), sp::<u32>(env, 1)))
    };
    after_epoch: |_e, _s, _p| ();
    more_work: |_s| false;
    reference: |cfg, specs| exn(vec![Cmp::Seq; 2], specs.iter().map(|ep| {
        let y = r_flat(cfg.k, ep);
        vec![e64(y.iter().copied()), e64(y.iter().map(|v| v % 5))]
    }).collect());
}

shape! {
    fn c_flatten_stream_sort = "flatten_stream>sort", family: "flatten_stream";
    outs: 1, virtual_outs: 0, max_epochs: 2, held: "sort_drain";
    spec: Vec<u32> = |sim, _c| gen_vec(sim);
    make: |env, s| SimStream::new(env, s.clone());
    state: ();
    build: |env, _st, _ep| push::flatten_stream::<SimStream<'_>, (), _>(push::sort(sp::<u32>(env, 0)));
    after_epoch: |_e, _s, _p| ();
    more_work: |_s| false;
    reference: |_cfg, specs| ex1(Cmp::Seq, specs.iter().map(|ep| { let y: Vec<u32> = ep.iter().flatten().copied().collect(); e64(r_sorted(&y)) }).collect());
}

// demux_var(fold_keyed -> A, reduce -> B)
shape! {
    fn c_demux_keyed_reduce = "demux_var(fold_keyed,reduce)", family: "keyed";
    outs: 2, virtual_outs: 0, max_epochs: 3, held: "keyed_flush";
    spec: (usize, (u32, u32)) = |sim, _c| (sim.choose("idx", 0, 1) as usize, f_kv(gen_u32(sim)));
    make: |_e, s| *s;
    state: FxHashMap<u32, u32>;
    build: |env, st, _ep| {
        let k = env.cfg.k;
        push::demux_var(var_expr!(
            push::FoldKeyed::new(st, move || k, |acc: &mut u32, v: u32| f_fold(acc, v), sp::<(u32, u32)>(env, 0)),
            push::map(|kv: (u32, u32)| kv.1, push::reduce(None, |a: &mut u32, x: u32| f_red(a, x), sp::<u32>(env, 1)))
        ))
    };
    after_epoch: |_e, _s, _p| ();
    more_work: |_s| false;
    reference: |cfg, specs| {
        let mut map = BTreeMap::new();
        exn(vec![Cmp::Bag, Cmp::Seq], specs.iter().map(|ep| {
            let a: Vec<(u32, u32)> = ep.iter().filter(|p| p.0 == 0).map(|p| p.1).collect();
            let b: Vec<u32> = ep.iter().filter(|p| p.0 == 1).map(|p| p.1.1).collect();
            let mut acc = None;
            r_reduce(&mut acc, &b);
            vec![r_keyed_fold(&mut map, cfg.k, &a), e64(acc)]
        }).collect())
    };
}

// accumulate draining into a fan-out: pending on one leg while the other accepted the item
shape! {
    fn c_sort_fan = "sort>fanout", family: "sort";
    outs: 2, virtual_outs: 0, max_epochs: 2, held: "sort_drain";
    spec: u32 = |sim, _c| gen_u32(sim);
    make: |_e, s| *s;
    state: ();
    build: |env, _st, _ep| push::sort(push::fanout(sp::<u32>(env, 0), sp::<u32>(env, 1)));
    after_epoch: |_e, _s, _p| ();
    more_work: |_s| false;
    reference: |_cfg, specs| exn(vec![Cmp::Seq; 2], specs.iter().map(|ep| vec![e64(r_sorted(ep)); 2]).collect());
}

shape! {
    fn c_fan_fold_fold = "fanout(fold,reduce_ref)", family: "fanout";
    outs: 2, virtual_outs: 0, max_epochs: 3, held: "accumulate_drain";
    spec: u32 = |sim, _c| gen_u32(sim);
    make: |_e, s| *s;
    state: (u32, Option<u32>);
    build: |env, st, _ep| {
        let (acc, red) = (&mut st.0, &mut st.1);
        push::fanout(
            push::fold(acc, |a: &mut u32, x: u32| f_fold(a, x), push::map(|v: &mut u32| *v, sp::<u32>(env, 0))),
            push::reduce_ref(red, |a: &mut u32, x: u32| f_red(a, x), push::map(|v: &mut u32| *v, sp::<u32>(env, 1))),
        )
    };
    after_epoch: |_e, _s, _p| ();
    more_work: |_s| false;
    reference: |_cfg, specs| {
        let mut acc = 0u32;
        let mut red = None;
        exn(vec![Cmp::Seq; 2], specs.iter().map(|ep| {
            r_fold(&mut acc, ep);
            r_reduce(&mut red, ep);
            vec![vec![acc as u64], e64(red)]
        }).collect())
    };
}

// pipelines that cannot pend at all (CanPend = No, Ctx = ()): what most generated subgraphs are
shape! {
    fn c_flat_for_each = "flat_map>for_each", family: "flat_map";
    outs: 1, virtual_outs: 1, max_epochs: 2, held: "other";
    spec: u32 = |sim, _c| gen_u32(sim);
    make: |_e, s| *s;
    state: ();
    build: |env, _st, _ep| { let k = env.cfg.k; push::flat_map(move |x: u32| f_inner(k, x), push::for_each(move |x: u32| env.virt(0, x as u64))) };
    after_epoch: |_e, _s, _p| ();
    more_work: |_s| false;
    reference: |cfg, specs| ex1(Cmp::Seq, specs.iter().map(|ep| e64(r_flat(cfg.k, ep))).collect());
}

shape! {
    fn c_persist_sort_for_each = "persist>sort>for_each", family: "persist";
    outs: 1, virtual_outs: 1, max_epochs: 3, held: "other";
    spec: u32 = |sim, _c| gen_u32(sim);
    make: |_e, s| *s;
    state: Vec<u32>;
    build: |env, st, ep| push::persist_state(st, env.cfg.flags[ep], push::sort(push::for_each(move |x: u32| env.virt(0, x as u64))));
    after_epoch: |_e, _s, _p| ();
    more_work: |_s| false;
    reference: |cfg, specs| {
        let mut p = RPersist::default();
        ex1(Cmp::Seq, specs.iter().enumerate().map(|(i, ep)| e64(r_sorted(&p.step(cfg.flags[i], ep)))).collect())
    };
}

shape! {
    fn c_fold_keyed_for_each = "fold_keyed>for_each", family: "keyed";
    outs: 1, virtual_outs: 1, max_epochs: 3, held: "other";
    spec: (u32, u32) = |sim, _c| f_kv(gen_u32(sim));
    make: |_e, s| *s;
    state: FxHashMap<u32, u32>;
    build: |env, st, _ep| { let k = env.cfg.k; push::FoldKeyed::new(st, move || k, |acc: &mut u32, v: u32| f_fold(acc, v), push::for_each(move |kv: (u32, u32)| env.virt(0, enc_pair(kv.0, kv.1)))) };
    after_epoch: |env, st, _p| if !env.cfg.mode { st.clear() };
    more_work: |_s| false;
    reference: |cfg, specs| {
        let mut map = BTreeMap::new();
        ex1(Cmp::Bag, specs.iter().map(|ep| {
            let out = r_keyed_fold(&mut map, cfg.k, ep);
            if !cfg.mode { map.clear(); }
            out
        }).collect())
    };
}

// ------------------------------------------------------------------------------------------

/// (scenario name, weight, run function)
pub const CATALOGUE: &[(&str, u64, RunFn)] = &[
    ("map", 1, s_map),
    ("filter", 1, s_filter),
    ("filter_map", 1, s_filter_map),
    ("flat_map", 3, s_flat_map),
    ("flatten", 2, s_flatten),
    ("inspect", 1, s_inspect),
    ("fanout", 3, s_fanout),
    ("unzip", 3, s_unzip),
    ("demux_var2", 2, s_demux2),
    ("demux_var3", 2, s_demux3),
    ("fold_ref", 2, s_fold_ref),
    ("fold_owned", 1, s_fold_owned),
    ("reduce_owned", 1, s_reduce_owned),
    ("reduce_ref", 2, s_reduce_ref),
    ("sort", 2, s_sort),
    ("accumulate_sort_state", 2, s_sort_state),
    ("fold_keyed", 3, s_fold_keyed),
    ("reduce_keyed", 3, s_reduce_keyed),
    ("persist", 3, s_persist),
    ("persist_replay_always", 2, s_persist_gen),
    ("resolve_futures_ordered_blocking", 2, s_rf_ordered_blocking),
    ("resolve_futures_unordered_blocking", 2, s_rf_unordered_blocking),
    ("resolve_futures_ordered_waker", 2, s_rf_ordered_waker),
    ("resolve_futures_unordered_waker", 2, s_rf_unordered_waker),
    ("sink", 1, s_sink),
    ("sink_compat", 1, s_sink_compat),
    ("filter_map_async", 3, s_filter_map_async),
    ("flat_map_stream", 2, s_flat_map_stream),
    ("flatten_stream", 2, s_flatten_stream),
    ("vec_push", 1, s_vec_push),
    ("map_for_each", 1, s_for_each),
    ("state_push", 2, s_state_push),
    ("flat_map>fanout(persist,fold)", 3, c_flat_fan_persist_fold),
    ("unzip(flatten,sort)", 3, c_unzip_flatten_sort),
    ("demux_var(filter,flat_map,id)", 3, c_demux_filter_flat),
    ("map>filter>flat_map", 1, c_map_filter_flat),
    ("fanout(flat_map,flat_map)", 3, c_fan_flat_flat),
    ("fanout(fanout(a,b),c)", 2, c_fan_fan),
    ("flat_map>reduce_keyed", 2, c_flat_reduce_keyed),
    ("persist>flat_map", 2, c_persist_flat),
    ("flat_map>persist", 2, c_flat_persist),
    ("sort>flat_map", 2, c_sort_flat),
    ("filter_map_async>flat_map", 2, c_fma_flat),
    ("map>resolve_futures_blocking>flat_map", 2, c_map_rf_flat),
    ("resolve_futures_ordered_waker>flat_map", 2, c_rf_waker_flat),
    ("flat_map_stream>fanout", 2, c_fms_fan),
    ("filter_map_async>fanout", 2, c_fma_fan),
    ("unzip(fold,persist)", 2, c_unzip_fold_persist),
    ("fanout(sink,sort)", 2, c_fan_sink_sort),
    ("sort_by_key_expansion", 2, c_sort_by_key),
    ("demux_var(sort,persist)", 2, c_demux_sort_persist),
    ("fanout(sync_ctx,task_ctx)", 2, c_fan_mixed_ctx),
    ("flat_map>sync_ctx", 1, c_flat_sync_ctx),
    ("fanout(a,vec_push)", 1, c_fan_vec_push),
    ("flatten>fanout(filter_map,reduce)", 2, c_flatten_fan_fm_reduce),
    ("state_push(flat_map,state)", 2, c_state_flat),
    ("persist>fanout", 2, c_persist_fan),
    ("sink_compat(fanout(a,flat_map))", 2, c_sink_compat_fan_flat),
    ("flat_map>unzip", 2, c_flat_unzip),
    ("flatten_stream>sort", 1, c_flatten_stream_sort),
    ("demux_var(fold_keyed,reduce)", 2, c_demux_keyed_reduce),
    ("sort>fanout", 2, c_sort_fan),
    ("fanout(fold,reduce_ref)", 2, c_fan_fold_fold),
    ("flat_map>for_each", 1, c_flat_for_each),
    ("persist>sort>for_each", 1, c_persist_sort_for_each),
    ("fold_keyed>for_each", 1, c_fold_keyed_for_each),
];
