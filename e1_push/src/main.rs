//! E1 `e1_push` — poll-level simulator for C12 (push combinators; DESIGN.md §4 E1, §5 C12).
mod drive;
mod env;
mod shapes;
mod stubs;

use simcore::runner::{Engine, Prop, Scenario};

fn main() {
    let scenarios: Vec<Scenario> =
        shapes::CATALOGUE.iter().map(|(name, weight, run)| Scenario { name, weight: *weight, run: *run }).collect();
    let engine = Engine {
        name: "e1_push",
        props: vec![Prop {
            id: "C12",
            scenarios,
            quick_runs: 4_000_000,
            thorough_runs: 100_000_000,
            rule: "each run picks one monomorphic pipeline shape from the push catalogue (scenario = shape) and draws knobs first (closure parameter, 1-3 epochs sharing the shape's external state, 0-6 inputs per epoch over the value domain 0..7, independent Pending rates per downstream for poll_ready and poll_finalize, burst length, pull-side / future / stream Pending rates, immediate vs deferred wake-ups, spurious-poll rate, coupled fan-out legs (leg 0 stays Pending until leg 1 was polled), driver = real SendPush or hand driver and its legal variations), then the schedule (every Pending answer, wake delay, task pick, spurious poll). Distinct = distinct hash of (shape, realised decision trace); non-trivial = at least one item reached a downstream AND at least one non-benign decision fired (a Pending answer, a deferred wake-up or a spurious poll).",
            time_unit: "executor steps + downstream polls",
            real: &[
                "dfir_pipes::push::{Map, Filter, FilterMap, FlatMap, Flatten, Inspect, Fanout, Unzip, DemuxVar/PushVariadic, Accumulate + FoldState/ReduceState/SortState, Sort, FoldKeyed, ReduceKeyed, Persist, ResolveFutures, Sink, SinkCompat, FilterMapAsync, FlatMapStream, FlattenStream, VecPush, ForEach, StatePush} and the ready!/ready_both! macros",
                "dfir_pipes::pull::SendPush (the real driver future)",
                "futures::stream::{FuturesOrdered, FuturesUnordered} as resolve_futures queues",
            ],
            stubs: &[
                "SimPush downstream (scripted poll_ready/poll_finalize Pending answers with bursts, Ctx=() and Ctx=task::Context variants, also as futures::Sink) with protocol monitor",
                "SimPull source (Pending on the pull side), hand driver, SinkAsPush (drives SinkCompat through the Sink protocol)",
                "SimFuture / SimStream (Pending + immediate or deferred wake)",
                "SimExec executor, timer task for deferred wake-ups, subgraph waker of non-blocking resolve_futures",
                "reference semantics written with std iterators per shape",
            ],
            assumptions: &[
                "sampled schedules, not exhaustive: <= 6 inputs per epoch over values 0..7, <= 3 epochs, <= 48 Pending answers per run",
                "the catalogue is a fixed list of monomorphic shapes (every combinator alone plus hand-picked compositions); compositions outside it are not covered",
                "oracle = exactly what C12 states: per-downstream item sequence (multiset for hash-ordered keyed accumulators and FuturesUnordered; whole-run sequence/multiset for non-blocking resolve_futures whose outputs may surface in later ticks), start_send only after poll_ready -> Done, no start_send after poll_finalize was called, poll_finalize -> Done on every downstream before the driver completes, driver never parked at quiescence; poll_ready / poll_finalize calls repeated after a finalize are only counted (obs/* probes), C12 does not forbid them",
                "keyed accumulators use rustc_hash::FxHashMap exactly as generated code does (deterministic iteration order)",
                "sink errors are not injected (push::Sink panics on them by design)",
            ],
            required_probes: &[
                "held_across_pending_in_ready/flat_map_buffer",
                "held_across_pending_in_ready/persist_replay",
                "held_across_pending_in_finalize/accumulate_drain",
                "held_across_pending_in_ready/flatten_buffer",
                "held_across_pending_in_ready/flat_map_stream_item",
                "held_across_pending_in_ready/filter_map_async_resolved",
                "held_across_pending_in_ready/resolve_futures_queue",
                "held_across_pending_in_finalize/keyed_flush",
                "held_across_pending_in_finalize/sort_drain",
                "held_across_pending_in_finalize/persist_replay",
                "one_leg_pending_in_ready",
                "second_leg_only_pending_in_finalize",
                "first_leg_only_pending_in_finalize",
                "hand_finalize_without_ready",
                "hand_redundant_poll_ready",
                "coupled_leg_unblocked_by_sibling_poll",
                "ready_pending",
                "finalize_pending",
                "pull_pending",
                "future_pending",
                "stream_pending",
                "wake_deferred",
                "spurious_poll",
            ],
        }],
    };
    if std::env::args().nth(1).as_deref() == Some("survey") {
        survey(&engine);
        return;
    }
    simcore::runner::main(engine);
}

/// Developer aid (not used by the check): `e1_push survey <runs> [seed]` runs the C12 scenarios
/// round-robin and prints a histogram of violation classes (the runner only reports the first
/// six classes of a batch).
fn survey(engine: &Engine) {
    use std::collections::BTreeMap;
    let runs: u64 = std::env::args().nth(2).and_then(|s| s.parse().ok()).unwrap_or(100_000);
    let seed: u64 = std::env::args().nth(3).and_then(|s| s.parse().ok()).unwrap_or(1);
    let prop = &engine.props[0];
    let mut hist: BTreeMap<String, (u64, u64, String)> = BTreeMap::new();
    let prev = std::panic::take_hook();
    std::panic::set_hook(Box::new(|_| {}));
    for r in 0..runs {
        let sc = &prop.scenarios[(r % prop.scenarios.len() as u64) as usize];
        let mut sim = simcore::Sim::seeded(simcore::runner::run_seed(seed, engine.name, sc.name, r));
        let o = simcore::runner::run_one(sc, &mut sim);
        if let Some(v) = o.violation {
            let e = hist.entry(v.class.clone()).or_insert((0, r, v.detail.clone()));
            e.0 += 1;
        }
    }
    std::panic::set_hook(prev);
    for (c, (n, r, d)) in &hist {
        println!("{n:8}  {c}   first run {r}: {d}");
    }
    println!("{} classes in {runs} runs", hist.len());
}
