//! Drivers (the real `SendPush`, a minimal hand driver), the executor harness and the end-of-run
//! oracle that compares every downstream with its reference.

use std::collections::BTreeMap;
use std::future::{Future, poll_fn};
use std::pin::Pin;
use std::task::{Context, Poll};

use dfir_pipes::pull::Pull;
use dfir_pipes::push::{Push, PushStep};
use simcore::exec::{SimExec, Stop};
use simcore::{Outcome, Violation};

use crate::env::{Cmp, Driver, E, show};
use crate::stubs::SimPull;

pub const STEP_CAP: u64 = 20_000;
/// extra (input-less) epochs a non-blocking `resolve_futures` shape may need to drain its queue
pub const MAX_DRAIN_EPOCHS: usize = 200;

/// Reference result of one run: `items[epoch][out]` (encoded) and the comparison granularity of
/// each downstream.
pub struct Expect {
    pub items: Vec<Vec<Vec<u64>>>,
    pub cmp: Vec<Cmp>,
}

// ------------------------------------------------------------------------------------------
// drivers

/// Run one epoch: push `inputs` through `pipeline` and finalize it.
pub async fn drive<'e, In, P>(env: E<'e>, pipeline: P, inputs: Vec<In>)
where
    P: Push<In, ()>,
{
    match env.cfg.driver {
        Driver::SendPush => {
            let pull = SimPull::new(env, inputs);
            Pull::send_push(pull, pipeline).await
        }
        Driver::Hand => hand_drive(env, pipeline, inputs).await,
    }
}

/// Minimal protocol-correct driver: `poll_ready` until `Done` before every `start_send`, then
/// `poll_finalize` until `Done`. Legal variations drawn per run: redundant `poll_ready` calls
/// (the real `SendPush` issues them whenever its pull side pends), no `poll_ready` between the
/// last `start_send` and `poll_finalize` (the crate's own tests drive combinators that way),
/// `size_hint` or not.
async fn hand_drive<'e, In, P>(env: E<'e>, pipeline: P, inputs: Vec<In>)
where
    P: Push<In, ()>,
{
    let mut p = std::pin::pin!(pipeline);
    if env.cfg.hand_size_hint {
        let n = inputs.len();
        p.as_mut().size_hint(if env.cfg.vague_hint { (0, None) } else { (n, Some(n)) });
    }
    for item in inputs {
        ready_until_done(env, p.as_mut()).await;
        while env.flip("hand_extra_ready", env.cfg.hand_extra_ready_pct) {
            env.probe("hand_redundant_poll_ready");
            ready_until_done(env, p.as_mut()).await;
        }
        env.driver_send();
        env.event(0x600, || "driver: start_send(next input)".into());
        p.as_mut().start_send(item, ());
    }
    if env.cfg.hand_ready_before_fin {
        ready_until_done(env, p.as_mut()).await;
    } else {
        env.probe("hand_finalize_without_ready");
    }
    env.input_ended();
    poll_fn(|cx| {
        env.event(0x602, || "driver: poll_finalize".into());
        match p.as_mut().poll_finalize(<P::Ctx<'_> as dfir_pipes::Context<'_>>::from_task(cx)) {
            PushStep::Done => Poll::Ready(()),
            PushStep::Pending(_) => Poll::Pending,
        }
    })
    .await
}

async fn ready_until_done<'e, In, P>(env: E<'e>, mut p: Pin<&mut P>)
where
    P: Push<In, ()>,
{
    poll_fn(|cx| {
        env.event(0x601, || "driver: poll_ready".into());
        let before = env.pendings_so_far();
        match p.as_mut().poll_ready(<P::Ctx<'_> as dfir_pipes::Context<'_>>::from_task(cx)) {
            PushStep::Done => {
                env.top_ready_done(before);
                Poll::Ready(())
            }
            PushStep::Pending(_) => Poll::Pending,
        }
    })
    .await
}

/// Wait until the subgraph waker handed to a non-blocking `resolve_futures` fires (= the real
/// scheduler would run another tick).
pub async fn wait_subgraph<'e>(env: E<'e>) {
    poll_fn(|cx| {
        if env.subgraph.take_woken() {
            env.st.borrow_mut().waiting_subgraph = false;
            Poll::Ready(())
        } else {
            env.subgraph.set_waiter(cx.waker().clone());
            // the wake may have raced in between (single-threaded: it cannot, but stay exact)
            if env.subgraph.take_woken() {
                env.st.borrow_mut().waiting_subgraph = false;
                return Poll::Ready(());
            }
            env.st.borrow_mut().waiting_subgraph = true;
            Poll::Pending
        }
    })
    .await;
    env.event(0x610, || "subgraph waker fired: another tick runs".into());
}

// ------------------------------------------------------------------------------------------
// executor harness

/// The driver task: remembers its waker (for `Ctx = ()` downstreams) and evaluates the
/// per-poll fan-out probes.
struct Tracked<'e> {
    env: E<'e>,
    inner: Pin<Box<dyn Future<Output = ()> + 'e>>,
}
impl<'e> Future for Tracked<'e> {
    type Output = ();
    fn poll(self: Pin<&mut Self>, cx: &mut Context<'_>) -> Poll<()> {
        let this = self.get_mut();
        let env = this.env;
        {
            let mut st = env.st.borrow_mut();
            let same = st.driver_waker.as_ref().map(|w| w.will_wake(cx.waker())).unwrap_or(false);
            if !same {
                st.driver_waker = Some(cx.waker().clone());
            }
        }
        env.window_reset();
        let r = this.inner.as_mut().poll(cx);
        env.window_eval();
        if r.is_ready() {
            env.main_finished();
        }
        r
    }
}

pub struct ExecResult {
    pub steps: u64,
    pub main_done: bool,
}

/// Run `main` (all epochs of one scenario) plus the timer task on a `SimExec` and evaluate the
/// liveness oracle at quiescence.
pub fn exec_main<'e>(env: E<'e>, main: impl Future<Output = ()> + 'e) -> ExecResult {
    let mut ex = SimExec::new();
    let m = ex.spawn(Tracked { env, inner: Box::pin(main) });
    ex.spawn(poll_fn(move |cx| if env.timer_poll(cx.waker()) { Poll::Ready(()) } else { Poll::Pending }));
    let stop = ex.run(&env.simc, env.cfg.spurious_pct, 100, STEP_CAP);
    let main_done = ex.is_done(m);
    if !main_done && !env.has_violation() {
        match stop {
            Stop::Quiescent => {
                let (waiting_subgraph, ep, in_epoch, coupled_blocked) = {
                    let st = env.st.borrow();
                    (st.waiting_subgraph, st.epoch, st.in_epoch, st.coupled_blocked)
                };
                if coupled_blocked {
                    env.viol(
                        "sibling_leg_starved",
                        format!("epoch {ep}: downstream 0 answered Pending and becomes ready as soon as downstream 1 is polled (coupled legs), but the pipeline returned Pending without polling downstream 1: the driver is parked forever although progress is possible"),
                    );
                } else if waiting_subgraph {
                    env.viol(
                        "lost_subgraph_wake",
                        format!("after epoch {ep}: futures are still queued in resolve_futures but its subgraph waker was never woken and no wake-up is outstanding: no further tick would ever deliver them"),
                    );
                } else {
                    env.viol(
                        "parked_driver",
                        format!(
                            "executor quiescent with the driver parked (epoch {ep}, in_epoch={in_epoch}): the pipeline answered Pending although no downstream/source has a wake-up outstanding ({} deferred)",
                            env.deferred_outstanding()
                        ),
                    );
                }
            }
            Stop::StepCap => {
                env.viol("no_progress_step_cap", format!("driver did not complete within {STEP_CAP} executor steps although the stubs stop answering Pending after a bounded budget"));
            }
            Stop::AllDone => {}
        }
    }
    ExecResult { steps: ex.steps, main_done }
}

// ------------------------------------------------------------------------------------------
// end-of-run oracle

fn bag(v: &[u64]) -> BTreeMap<u64, i64> {
    let mut m = BTreeMap::new();
    for x in v {
        *m.entry(*x).or_insert(0) += 1;
    }
    m
}

fn fmt_items(v: &[u64]) -> String {
    let s: Vec<String> = v.iter().map(|x| show(*x)).collect();
    format!("[{}]", s.join(", "))
}

/// Classify a mismatch between what a downstream got and its reference.
fn mismatch_class(got: &[u64], want: &[u64], ordered: bool) -> Option<&'static str> {
    if ordered && got == want {
        return None;
    }
    let (bg, bw) = (bag(got), bag(want));
    if bg == bw {
        return if ordered { Some("wrong_order") } else { None };
    }
    let got_sub = bg.iter().all(|(k, c)| bw.get(k).copied().unwrap_or(0) >= *c);
    let want_sub = bw.iter().all(|(k, c)| bg.get(k).copied().unwrap_or(0) >= *c);
    Some(if got_sub {
        "lost_items"
    } else if want_sub {
        "extra_or_duplicated_items"
    } else {
        "wrong_items"
    })
}

/// Compare every downstream with the reference (only called when the driver completed and the
/// protocol monitor is silent).
pub fn compare(env: E<'_>, expect: &Expect) {
    let st = env.st.borrow();
    let mut found: Option<(String, String)> = None;
    'outer: for (oi, o) in st.outs.iter().enumerate() {
        let cmp = expect.cmp[oi];
        match cmp {
            Cmp::Seq | Cmp::Bag => {
                for (ep, got) in o.epochs.iter().enumerate() {
                    let empty = Vec::new();
                    let want = expect.items.get(ep).map(|e| &e[oi]).unwrap_or(&empty);
                    if let Some(c) = mismatch_class(got, want, cmp == Cmp::Seq) {
                        found = Some((
                            c.to_string(),
                            format!("downstream {oi}, epoch {ep} ({cmp:?}): got {} but the reference is {}", fmt_items(got), fmt_items(want)),
                        ));
                        break 'outer;
                    }
                }
                if o.epochs.len() < expect.items.len() {
                    found = Some(("missing_epoch".into(), format!("downstream {oi}: only {} of {} epochs ran", o.epochs.len(), expect.items.len())));
                    break 'outer;
                }
            }
            Cmp::RunSeq | Cmp::RunBag => {
                let got: Vec<u64> = o.epochs.iter().flatten().copied().collect();
                let want: Vec<u64> = expect.items.iter().flat_map(|e| e[oi].iter().copied()).collect();
                if let Some(c) = mismatch_class(&got, &want, cmp == Cmp::RunSeq) {
                    found = Some((
                        c.to_string(),
                        format!("downstream {oi}, whole run ({cmp:?}): got {} but the reference is {}", fmt_items(&got), fmt_items(&want)),
                    ));
                    break 'outer;
                }
            }
        }
    }
    drop(st);
    if let Some((c, d)) = found {
        env.viol(&c, d);
    }
}

/// Assemble the run's `Outcome` (and record the SUT-visible end state).
pub fn finish(env: E<'_>, expect: &Expect, ex: &ExecResult) -> (Option<Violation>, bool, u64, u64) {
    if ex.main_done && !env.has_violation() {
        compare(env, expect);
    }
    let st = env.st.borrow();
    let mut h = 0xcbf2_9ce4_8422_2325u64;
    for o in &st.outs {
        for e in &o.epochs {
            for x in e {
                h = (h ^ x).wrapping_mul(0x0000_0100_0000_01B3);
            }
            h = (h ^ 0xff).wrapping_mul(0x0000_0100_0000_01B3);
        }
    }
    (st.violation.clone(), st.items_flowed > 0, ex.steps + st.polls, h)
}

pub fn outcome(v: Option<Violation>, flowed: bool, nonbenign: u64, sim_time: u64) -> Outcome {
    Outcome { violation: v, nontrivial: flowed && nonbenign > 0, sim_time, discarded: false }
}
