#!/bin/bash
# e3_ticksim/tools/mutant_batch.sh <name> <PROP> <patch-file>...
# Same isolation as tools/mutant_run.sh (scratch git worktree of /repo + scratch copy of /verif with
# every /repo/ and /verif/ prefix rewritten; nothing in /repo or /verif is modified), but ONE scratch
# tree serves a whole list of patches: each patch is applied, the engine is rebuilt incrementally
# (cargo path dependencies pick up the edit), the quick tier of <PROP> is run, the patch is reverted.
# The cold dependency build is paid once per batch instead of once per mutant.
# Output: one line `MUTANT <patch> rc=<exit code> class=<first violation class> wall=<s>` per patch.
# Env: KEEP=1 keeps the scratch tree; E3_ARGS = extra arguments for the engine (e.g. "--programs 24").
set -u
NAME="$1"; PROP="$2"; shift 2
WT="/var/tmp/verif-mut-$NAME"
if [ ! -d "$WT/repo" ]; then
  rm -rf "$WT"; git -C /repo worktree prune
  mkdir -p "$WT"
  git -C /repo worktree add --detach "$WT/repo" HEAD >/dev/null 2>&1 || { echo "worktree add failed"; exit 2; }
  mkdir -p "$WT/verif"
  rsync -a --exclude 'target' --exclude 'target-*' --exclude '.git' --exclude 'replays' --exclude 'evidence' --exclude 'seeded' /verif/ "$WT/verif/"
  mkdir -p "$WT/verif/replays" "$WT/verif/evidence"
  grep -rlE '/repo/|/verif/' "$WT/verif" --include=Cargo.toml --include=config.toml --include='*.sh' --include=check --include='*.rs' --include='*.py' 2>/dev/null | while read -r f; do
    sed -i "s#/repo/#$WT/repo/#g; s#\"/repo\"#\"$WT/repo\"#g; s#/verif/#$WT/verif/#g; s#\"/verif\"#\"$WT/verif\"#g" "$f"
  done
  # warm start: registry crates compiled for /verif/e3_ticksim are reusable (path crates are not)
  if [ -d /verif/e3_ticksim/target/release ] && [ "${SEED_TARGET:-1}" = "1" ]; then
    mkdir -p "$WT/verif/e3_ticksim/target/release"
    for d in deps build .fingerprint; do
      rsync -a --exclude 'e3g_*' --exclude 'e3b_*' --exclude 'libe3g_*' --exclude 'libe3b_*' "/verif/e3_ticksim/target/release/$d" "$WT/verif/e3_ticksim/target/release/" 2>/dev/null
    done
  fi
fi
export VERIF_DIR="$WT/verif"
export CARGO_NET_OFFLINE=true
for P in "$@"; do
  (cd "$WT/repo" && git checkout -q -- . && git clean -fdq && { [ "$P" = "-" ] || git apply "$P"; }) || { echo "MUTANT $P rc=patch-does-not-apply"; continue; }
  T0=$(date +%s)
  LOG="$WT/log-$(basename "$(dirname "$P")")-$(basename "$P").txt"
  (cd "$WT/verif/e3_ticksim" && cargo build --release --offline -p e3_ticksim >"$LOG" 2>&1) || { echo "MUTANT $P rc=engine-build-failed (see $LOG)"; tail -5 "$LOG"; continue; }
  (cd "$WT/verif" && ./e3_ticksim/target/release/e3_ticksim "$PROP" ${E3_ARGS:-} >>"$LOG" 2>&1); RC=$?
  CLASS=$(grep -m1 -o 'violation class=[^ ]*' "$LOG" | cut -d= -f2)
  RUNS=$(grep -m1 -o 'done property=[^ ]* runs=[0-9]*' "$LOG" | grep -o 'runs=[0-9]*')
  echo "MUTANT $P rc=$RC class=${CLASS:-none} ${RUNS:-} wall=$(( $(date +%s) - T0 ))s"
  [ "$RC" = "2" ] && grep -m3 "HARNESS" "$LOG"
done
(cd "$WT/repo" && git checkout -q -- . && git clean -fdq)
if [ "${KEEP:-0}" != "1" ]; then
  cd /; git -C /repo worktree remove --force "$WT/repo" >/dev/null 2>&1; rm -rf "$WT"; git -C /repo worktree prune
fi
