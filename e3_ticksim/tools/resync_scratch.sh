#!/bin/bash
# resync_scratch.sh <name>: copy the current e3_ticksim sources into an existing scratch tree of
# mutant_batch.sh (/var/tmp/verif-mut-<name>) and rewrite the /repo/ and /verif/ prefixes again.
WT=/var/tmp/verif-mut-$1
[ -d "$WT/verif/e3_ticksim" ] || { echo "no scratch tree $WT"; exit 2; }
rsync -a --delete --exclude target /verif/e3_ticksim/src /verif/e3_ticksim/core /verif/e3_ticksim/tools "$WT/verif/e3_ticksim/"
cp /verif/e3_ticksim/Cargo.toml "$WT/verif/e3_ticksim/Cargo.toml"
grep -rlE '/repo/|/verif/' "$WT/verif/e3_ticksim" --include='*.rs' --include=Cargo.toml --include='*.sh' | grep -v "/target/" | while read -r f; do
  sed -i "s#/repo/#$WT/repo/#g; s#\"/repo\"#\"$WT/repo\"#g; s#/verif/#$WT/verif/#g; s#\"/verif\"#\"$WT/verif\"#g" "$f"
done
echo "resynced $WT"
