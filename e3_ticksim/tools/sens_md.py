#!/usr/bin/env python3
"""Write /verif/sensitivity/<ID>.md from the `MUTANT ...` lines of a mutant_batch.sh log.
usage: sens_md.py <ID> <batch log> [<batch log> ...]"""
import re, sys, os
pid = sys.argv[1]
rows = {}
for log in sys.argv[2:]:
    for l in open(log):
        m = re.match(r"MUTANT (\S+) rc=(\S+)(?: class=(\S+))?\s*(?:runs=(\d+))?\s*(?:wall=(\d+)s)?", l)
        if m:
            rows[m.group(1)] = m.groups()[1:]
DESCR = {}
dpath = f"/verif/sensitivity/{pid}/DESCR.txt"
if os.path.exists(dpath):
    for l in open(dpath):
        if ":" in l:
            k, v = l.split(":", 1)
            DESCR[k.strip()] = v.strip()
out = [f"# Sensitivity of the {pid} check (engine e3_ticksim)", "",
       "Protocol: DESIGN.md §3.7. Each mutant is a patch of `/repo` that still compiles; it is applied to a scratch",
       "git worktree of `/repo`, the engine is rebuilt against it (`e3_ticksim/tools/mutant_batch.sh`, same isolation as",
       "`tools/mutant_run.sh` but one scratch tree per batch of patches) and the *quick* tier of the check is run with",
       "`VERIF_SEED=1`. `rc=1` = violation reported after the fresh-process replay confirmed it; `runs` = runs executed",
       "before the batch stopped (the runner stops after 32 violations), out of the quick tier's full budget.", ""]
base = rows.get("-")
if base:
    out.append(f"Baseline (no patch) in the same scratch tree: rc={base[0]}, runs={base[2]}.")
    out.append("")
out += ["| mutant | what it breaks | caught by quick tier | violation class | runs executed | wall (build+run) |", "|---|---|---|---|---|---|"]
caught = missed = 0
for p in sorted(rows, key=lambda x: [int(t) if t.isdigit() else t for t in re.split(r"(\d+)", x)]):
    if p == "-":
        continue
    rc, cls, runs, wall = rows[p]
    name = os.path.basename(p)
    ok = "yes" if rc == "1" else ("NO (survived)" if rc == "0" else f"harness/build problem (rc={rc})")
    caught += rc == "1"
    missed += rc == "0"
    out.append(f"| `{pid}/{name}` | {DESCR.get(name, '')} | {ok} | `{cls or '-'}` | {runs or '-'} | {wall or '-'} s |")
out += ["", f"Caught: {caught}, survived: {missed}.", ""]
npath = f"/verif/sensitivity/{pid}/NOTES.txt"
if os.path.exists(npath):
    out.append(open(npath).read())
out += ["## Patches", ""]
for p in sorted(rows):
    if p == "-" or not os.path.exists(p):
        continue
    out += [f"### {os.path.basename(p)}", "```diff", open(p).read().rstrip(), "```", ""]
open(f"/verif/sensitivity/{pid}.md", "w").write("\n".join(out) + "\n")
print(f"wrote /verif/sensitivity/{pid}.md: caught {caught}, survived {missed}")
