//! Program AST (data) shared by generator, emitter, reference interpreter and the generated crates.
//!
//! Every edge carries the single item type [`It`] = `(u8 key, i16 val)`. Every AST operator is a
//! *macro-operator*: it expands to one DFIR operator plus (where the DFIR operator's item type
//! differs) fixed adapter `map`s, so that inputs and outputs are always `It`.

use serde::{Deserialize, Serialize};

pub type It = (u8, i16);

#[derive(Clone, Copy, Debug, PartialEq, Eq, PartialOrd, Ord, Serialize, Deserialize)]
pub enum Pers {
    Tick,
    Static,
}
impl Pers {
    pub fn s(self) -> &'static str {
        match self {
            Pers::Tick => "'tick",
            Pers::Static => "'static",
        }
    }
}

/// Is the order of a stream specified by DFIR (`Seq`) or not (`Bag`)?
#[derive(Clone, Copy, Debug, PartialEq, Eq, Serialize, Deserialize)]
pub enum Order {
    Seq,
    Bag,
    /// unspecified order, except that the projection `f` (0: key, 1: value) is non-decreasing
    /// (the output of `sort_by_key`, and order-preserving sub-sequences of it)
    KeySorted(u8),
}
impl Order {
    /// What remains of the order information after an operator that keeps sub-sequences in order
    /// but changes or mixes nothing (filter, unique, tee, identity, inspect).
    pub fn subseq(self) -> Order {
        self
    }
    /// After an operator that maps items (the sort projection is lost).
    pub fn mapped(self) -> Order {
        match self {
            Order::Seq => Order::Seq,
            _ => Order::Bag,
        }
    }
}

#[derive(Clone, Debug, PartialEq, Eq, Serialize, Deserialize)]
pub enum Op {
    // ---- sources
    /// `source_stream(rx<chan>)`
    Src { chan: usize },
    /// `source_iter(vec![..])`: all items in the first tick
    SrcIter { items: Vec<It> },
    /// `null()` used as a source (emits nothing)
    NullSrc,
    // ---- stateless unary
    Map { f: u8 },
    Filter { f: u8 },
    FilterMap { f: u8 },
    FlatMap { f: u8 },
    /// `map(|x| expand(f, x)) -> flatten()`
    Flatten { f: u8 },
    /// `inspect(..)` appending to the inspect log `id`
    Inspect { id: usize },
    Identity,
    /// `map(|x| x)` (only used by shape variants)
    MapId,
    /// `filter_map(decay)`: strictly decreasing value, drops items at 0 (feedback cycles)
    Decay,
    // ---- stateful unary
    Persist,
    Unique { p: Pers },
    MultisetDelta,
    Sort,
    /// `sort_by_key` with an injective key (total order) `f`
    SortByKey { f: u8 },
    Enumerate { p: Pers },
    Fold { p: Pers, f: u8 },
    Reduce { p: Pers, f: u8 },
    FoldNoReplay { p: Pers, f: u8 },
    ReduceNoReplay { p: Pers, f: u8 },
    FoldKeyed { p: Pers, f: u8 },
    ReduceKeyed { p: Pers, f: u8 },
    Scan { p: Pers, f: u8 },
    // ---- delays
    DeferTick,
    DeferTickLazy,
    // ---- n-ary
    Union,
    /// all of input 0, then all of input 1
    Chain,
    /// `chain_first_n(n)`
    ChainFirstN { n: usize },
    Join { pl: Pers, pr: Pers, multiset: bool, f: u8 },
    CrossJoin { pl: Pers, pr: Pers, multiset: bool, f: u8 },
    /// pos = input 0 (It), neg = input 1 (mapped to its key)
    AntiJoin { pp: Pers, pn: Pers },
    Difference { pp: Pers, pn: Pers },
    Zip { f: u8 },
    ZipLongest { f: u8 },
    /// input 0: stream, input 1: singleton stream (<= 1 item per tick by construction)
    CrossSingleton { f: u8 },
    /// input 0: data, input 1: signal
    DeferSignal,
    // ---- fan-out
    Tee,
    /// `partition(|x, [a, b, ..]| ..)` with `n` outputs
    Partition { f: u8, n: usize },
    /// `demux_enum::<Shape3>()`: 3 outputs
    DemuxEnum { f: u8 },
    /// `map(|x| (g0(x), g1(x))) -> unzip()`: 2 outputs
    Unzip { f: u8 },
    // ---- handoff pseudo-operators (reference targets, C25): 1 input, 0 or 1 output
    /// `singleton()`: exactly one item per tick by construction
    HoffSingleton,
    /// `optional()`: at most one item per tick by construction
    HoffOptional,
    /// `handoff()`: any number of items
    HoffVec,
    /// `map` whose closure reads (`write == false`) or updates (`write == true`) the value held
    /// by handoff node `target` through `#{group} [mut] name`, logging `(group, item, value seen)`
    RefMap { target: usize, group: u32, write: bool, f: u8 },
    // ---- loop blocks (C26)
    /// `batch()`: first operator inside a loop on an edge entering it
    Batch,
    /// `batch_lazy()`
    BatchLazy,
    /// `all_iterations()`: first operator outside a loop on an edge leaving it
    AllIterations,
    // ---- sinks
    Sink { id: usize },
    Null,
}

impl Op {
    pub fn name(&self) -> &'static str {
        match self {
            Op::Src { .. } => "source_stream",
            Op::SrcIter { .. } => "source_iter",
            Op::NullSrc => "null_src",
            Op::Map { .. } => "map",
            Op::Filter { .. } => "filter",
            Op::FilterMap { .. } => "filter_map",
            Op::FlatMap { .. } => "flat_map",
            Op::Flatten { .. } => "flatten",
            Op::Inspect { .. } => "inspect",
            Op::Identity => "identity",
            Op::MapId => "map_id",
            Op::Decay => "filter_map",
            Op::Persist => "persist",
            Op::Unique { .. } => "unique",
            Op::MultisetDelta => "multiset_delta",
            Op::Sort => "sort",
            Op::SortByKey { .. } => "sort_by_key",
            Op::Enumerate { .. } => "enumerate",
            Op::Fold { .. } => "fold",
            Op::Reduce { .. } => "reduce",
            Op::FoldNoReplay { .. } => "fold_no_replay",
            Op::ReduceNoReplay { .. } => "reduce_no_replay",
            Op::FoldKeyed { .. } => "fold_keyed",
            Op::ReduceKeyed { .. } => "reduce_keyed",
            Op::Scan { .. } => "scan",
            Op::DeferTick => "defer_tick",
            Op::DeferTickLazy => "defer_tick_lazy",
            Op::Union => "union",
            Op::Chain => "chain",
            Op::ChainFirstN { .. } => "chain_first_n",
            Op::Join { multiset: false, .. } => "join",
            Op::Join { multiset: true, .. } => "join_multiset",
            Op::CrossJoin { multiset: false, .. } => "cross_join",
            Op::CrossJoin { multiset: true, .. } => "cross_join_multiset",
            Op::AntiJoin { .. } => "anti_join",
            Op::Difference { .. } => "difference",
            Op::Zip { .. } => "zip",
            Op::ZipLongest { .. } => "zip_longest",
            Op::CrossSingleton { .. } => "cross_singleton",
            Op::DeferSignal => "defer_signal",
            Op::Tee => "tee",
            Op::Partition { .. } => "partition",
            Op::DemuxEnum { .. } => "demux_enum",
            Op::Unzip { .. } => "unzip",
            Op::HoffSingleton => "singleton",
            Op::HoffOptional => "optional",
            Op::HoffVec => "handoff",
            Op::RefMap { write: false, .. } => "ref_read",
            Op::RefMap { write: true, .. } => "ref_write",
            Op::Batch => "batch",
            Op::BatchLazy => "batch_lazy",
            Op::AllIterations => "all_iterations",
            Op::Sink { .. } => "for_each",
            Op::Null => "null",
        }
    }
    /// Does the edge into input `port` cross a tick boundary (not a same-tick dependency)?
    pub fn is_delay(&self) -> bool {
        matches!(self, Op::DeferTick | Op::DeferTickLazy)
    }
}

/// An edge source: output `port` of node `node`.
#[derive(Clone, Copy, Debug, PartialEq, Eq, Serialize, Deserialize)]
pub struct Src {
    pub node: usize,
    pub port: usize,
}

#[derive(Clone, Debug, PartialEq, Eq, Serialize, Deserialize)]
pub struct Node {
    pub op: Op,
    /// one entry per input port, in port order
    pub ins: Vec<Src>,
}

#[derive(Clone, Debug, PartialEq, Eq, Serialize, Deserialize)]
pub struct Program {
    /// what produced it (generator template) — part of violation classes
    pub kind: String,
    pub nodes: Vec<Node>,
    pub n_chans: usize,
    /// per sink id: is the order of the stream reaching it specified?
    pub sink_order: Vec<Order>,
    pub n_inspect: usize,
    /// statement emission order (a permutation of node indices); shape variants shuffle it
    pub emit_order: Vec<usize>,
    /// loop blocks: parent loop of each loop (`None` = root-level loop)
    #[serde(default)]
    pub loops: Vec<Option<usize>>,
    /// per node: the loop block it is declared in (empty = no loops in the program)
    #[serde(default)]
    pub node_loop: Vec<Option<usize>>,
    /// number of reference logs (one per referenced handoff)
    #[serde(default)]
    pub n_refs: usize,
}

impl Program {
    pub fn n_sinks(&self) -> usize {
        self.sink_order.len()
    }
    /// Number of output ports actually used per node.
    pub fn out_degree(&self) -> Vec<usize> {
        let mut d = vec![0usize; self.nodes.len()];
        for n in &self.nodes {
            for s in &n.ins {
                d[s.node] = d[s.node].max(s.port + 1);
            }
        }
        d
    }
    pub fn to_json(&self) -> String {
        serde_json::to_string(self).expect("ast json")
    }
    pub fn from_json(s: &str) -> Result<Program, String> {
        serde_json::from_str(s).map_err(|e| e.to_string())
    }
    /// Topological order over same-tick edges (edges *into* a delay node are cut). `None` if the
    /// same-tick graph has a cycle (the generator never produces that).
    pub fn topo(&self) -> Option<Vec<usize>> {
        let n = self.nodes.len();
        let mut indeg = vec![0usize; n];
        let mut succ: Vec<Vec<usize>> = vec![vec![]; n];
        for (i, nd) in self.nodes.iter().enumerate() {
            if nd.op.is_delay() {
                continue;
            }
            for s in &nd.ins {
                indeg[i] += 1;
                succ[s.node].push(i);
            }
        }
        // references: the handoff is settled before any reference holder runs; holders run in
        // access-group order; the pipe consumers of the handoff run after all holders
        let mut extra: Vec<(usize, usize)> = vec![];
        for (i, nd) in self.nodes.iter().enumerate() {
            if let Op::RefMap { target, group, .. } = nd.op {
                extra.push((target, i));
                for (j, other) in self.nodes.iter().enumerate() {
                    if let Op::RefMap { target: t2, group: g2, .. } = other.op {
                        if t2 == target && g2 > group {
                            extra.push((i, j));
                        }
                    }
                    if !other.op.is_delay() && !matches!(other.op, Op::RefMap { .. }) && other.ins.iter().any(|s| s.node == target) {
                        extra.push((i, j));
                    }
                }
            }
        }
        for (a, b) in extra {
            indeg[b] += 1;
            succ[a].push(b);
        }
        let mut ready: Vec<usize> = (0..n).filter(|i| indeg[*i] == 0).collect();
        ready.reverse();
        let mut out = Vec::with_capacity(n);
        while let Some(i) = ready.pop() {
            out.push(i);
            for &j in &succ[i] {
                indeg[j] -= 1;
                if indeg[j] == 0 {
                    ready.push(j);
                }
            }
        }
        if out.len() == n { Some(out) } else { None }
    }
    /// Reference log id per referenced handoff node (in order of first use by node index).
    pub fn ref_ids(&self) -> std::collections::BTreeMap<usize, usize> {
        let mut m = std::collections::BTreeMap::new();
        for nd in &self.nodes {
            if let Op::RefMap { target, .. } = nd.op {
                let k = m.len();
                m.entry(target).or_insert(k);
            }
        }
        m
    }
    pub fn loop_depth(&self, l: Option<usize>) -> usize {
        let mut d = 0;
        let mut l = l;
        while let Some(x) = l {
            d += 1;
            l = self.loops[x];
        }
        d
    }
    pub fn loop_of(&self, node: usize) -> Option<usize> {
        self.node_loop.get(node).copied().flatten()
    }
    pub fn has_loops(&self) -> bool {
        !self.loops.is_empty()
    }
    pub fn op_names(&self) -> Vec<&'static str> {
        self.nodes.iter().map(|n| n.op.name()).collect()
    }
}
