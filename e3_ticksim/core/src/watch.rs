//! Livelock watchdog. A compiled DFIR program that never returns from `run_tick_sync` /
//! `run_available_sync` (e.g. a `loop {}` block whose gate never turns false) cannot be interrupted
//! from inside the run. Every worker thread publishes what it is executing; a monitor thread notices
//! a run that takes absurdly long, writes its replay file, confirms in a fresh process that the
//! replay hangs too, and ends the process with the VIOLATION exit code (1) — or, when this process
//! *is* the replay, reports `REPLAY-VIOLATION class=livelock/..`.

use std::sync::{Arc, Mutex, OnceLock};
use std::time::{Duration, Instant};

use simcore::{Dec, Violation};

use crate::drive::{Compiled, Plan};

struct Entry {
    started: Instant,
    c: &'static Compiled,
    trace: Vec<Dec>,
    plan: String,
}
type Slot = Arc<Mutex<Option<Entry>>>;

static SLOTS: OnceLock<Mutex<Vec<Slot>>> = OnceLock::new();
thread_local! {
    static MY: Slot = {
        let s: Slot = Arc::new(Mutex::new(None));
        let all = SLOTS.get_or_init(|| {
            std::thread::Builder::new().name("e3-watchdog".into()).spawn(monitor).expect("watchdog thread");
            Mutex::new(vec![])
        });
        all.lock().unwrap().push(s.clone());
        s
    };
}

pub struct Guard;
impl Drop for Guard {
    fn drop(&mut self) {
        MY.with(|s| *s.lock().unwrap() = None);
    }
}

/// Called right before the compiled variants of one run are executed.
pub fn enter(c: &'static Compiled, trace: &[Dec], plan: &Plan) -> Guard {
    MY.with(|s| {
        *s.lock().unwrap() = Some(Entry { started: Instant::now(), c, trace: trace.to_vec(), plan: format!("{:?}", plan.steps) });
    });
    Guard
}

fn limit() -> Duration {
    let is_replay = std::env::args().any(|a| a == "--replay");
    let secs = std::env::var("E3_HANG_S").ok().and_then(|s| s.parse().ok()).unwrap_or(if is_replay { 30 } else { 120 });
    Duration::from_secs(secs)
}

fn monitor() {
    let lim = limit();
    loop {
        std::thread::sleep(Duration::from_millis(500));
        let Some(all) = SLOTS.get() else { continue };
        let slots: Vec<Slot> = all.lock().unwrap().clone();
        for s in slots {
            let g = s.lock().unwrap();
            if let Some(e) = g.as_ref() {
                if e.started.elapsed() > lim {
                    report(e, lim);
                }
            }
        }
    }
}

fn report(e: &Entry, lim: Duration) -> ! {
    let args: Vec<String> = std::env::args().collect();
    let prop = args.get(1).cloned().unwrap_or_default();
    let kind = &e.c.progs[0].1.kind;
    let class = format!("livelock/{kind}");
    let detail = format!("a compiled variant of scenario {} did not return within {} s of wall time (schedule {})", e.c.name, lim.as_secs(), e.plan);
    if let Some(i) = args.iter().position(|a| a == "--replay") {
        let path = args.get(i + 1).cloned().unwrap_or_default();
        println!("REPLAY-VIOLATION class={class} detail={detail}");
        println!("VIOLATION property={prop} replay={path}");
        std::process::exit(1);
    }
    let seed: u64 = args.iter().position(|a| a == "--seed").and_then(|i| args.get(i + 1)).and_then(|s| s.parse().ok()).unwrap_or(1);
    let mut log = vec![format!("[1] PROGRAM kind={kind} ops={:?}", e.c.progs[0].1.op_names())];
    for (name, p) in &e.c.progs {
        log.push(format!("[2] VARIANT {name} AST {}", p.to_json()));
        log.push(format!("[3] DFIR text of variant {name}:\n{}", crate::emit::dfir_text(p)));
    }
    log.push(format!("[4] schedule {}", e.plan));
    let v = Violation::new(class.clone(), detail.clone());
    let path = simcore::runner::write_replay("e3_ticksim", &prop, &e.c.name, seed, 999_999_999, &e.trace, &v, &log, e.trace.len());
    // fresh-process confirmation (the replay process has its own watchdog)
    let exe = std::env::current_exe().expect("current_exe");
    let out = std::process::Command::new(exe).args([prop.as_str(), "--replay", path.to_str().unwrap_or_default()]).output();
    let confirmed = out.as_ref().map(|o| String::from_utf8_lossy(&o.stdout).contains(&format!("REPLAY-VIOLATION class={class}"))).unwrap_or(false);
    if !confirmed {
        eprintln!("HARNESS: scenario {} hung for {} s but its replay {} did not hang in a fresh process", e.c.name, lim.as_secs(), path.display());
        std::process::exit(2);
    }
    println!("violation class={class} scenario={} (not minimised: a hanging run cannot be re-executed in-process) : {detail}", e.c.name);
    println!("VIOLATION property={prop} replay={}", path.display());
    let ev = serde_json::json!({
        "property_id": prop, "tier": std::env::var("VERIF_TIER").unwrap_or_else(|_| "quick".into()), "seed": seed, "level": "exploration",
        "coverage": {"evaluations": 1, "distinct_nontrivial": 0, "rule": "batch aborted by the livelock watchdog", "samples": [detail],
                     "violation_details": [{"class": class, "replay": path, "known_finding": false}]},
        "assumptions": [], "wall_s": 0.0, "violations": 1
    });
    let evp = simcore::runner::verif_dir().join("evidence").join(format!("{prop}.json"));
    let _ = std::fs::write(evp, serde_json::to_string_pretty(&ev).unwrap_or_default());
    std::process::exit(1);
}
