//! C22, rustc-level compile agreement. The dfir_lang pre-check cannot see a split that only rustc
//! sees (generated code that fails type or borrow checking for one shape of a program and not for
//! its semantically identical sibling). For a handful of *variant families* — one operator realised
//! pull-side vs push-side through a 2-output tee / a union, etc. — every variant is a tiny library
//! crate of its own in one shared workspace (`<verif>/e3_ticksim/target/gen/C22-rustc`, crate name
//! = content hash, same target directory as everything else, so the dependencies are reused) and
//! `cargo check --keep-going` is run over the workspace once per process. A family in which some
//! variants compile and others do not is a violation `compile_split/rustc/<family>`. The replay
//! file carries the variants' ASTs and texts; replaying (fresh process) re-runs `cargo check`.

use std::collections::BTreeMap;
use std::sync::OnceLock;

use simcore::{Outcome, Sim, Violation};

use crate::ast::Program;

pub struct Variant {
    pub name: String,
    pub krate: String,
    pub prog: Program,
}
pub struct Family {
    pub name: String,
    /// absolute path of the shared workspace
    pub ws: String,
    pub variants: Vec<Variant>,
}
impl Family {
    pub fn new(name: &str, ws: &str, variants: &[(&str, &str, &str)]) -> Family {
        Family {
            name: name.to_string(),
            ws: ws.to_string(),
            variants: variants.iter().map(|(n, k, j)| Variant { name: n.to_string(), krate: k.to_string(), prog: Program::from_json(j).expect("embedded AST") }).collect(),
        }
    }
}

/// crate name -> first error line (only crates that failed to compile)
static RESULTS: OnceLock<Result<BTreeMap<String, String>, String>> = OnceLock::new();

fn cargo_check(ws: &str) -> Result<BTreeMap<String, String>, String> {
    let out = std::process::Command::new("cargo")
        .args(["check", "--release", "--offline", "--keep-going", "--workspace", "--message-format=short"])
        .current_dir(ws)
        .env("CARGO_NET_OFFLINE", "true")
        .output()
        .map_err(|e| format!("cannot run cargo check in {ws}: {e}"))?;
    let err = String::from_utf8_lossy(&out.stderr).to_string();
    let mut failed: BTreeMap<String, String> = BTreeMap::new();
    let mut first_err: BTreeMap<String, String> = BTreeMap::new();
    for line in err.lines() {
        // `e3r_<hash>/src/lib.rs:LL:CC: error[E0282]: ...`
        if let Some(pos) = line.find("/src/lib.rs:") {
            let krate = line[..pos].rsplit('/').next().unwrap_or("").to_string();
            if krate.starts_with("e3r_") && line.contains(": error") {
                first_err.entry(krate).or_insert_with(|| line[pos + 12..].to_string());
            }
        }
        // error: could not compile `e3r_<hash>` (lib) due to ..
        if let Some(rest) = line.strip_prefix("error: could not compile `") {
            let krate: String = rest.chars().take_while(|c| *c != '`').collect();
            if !krate.starts_with("e3r_") {
                return Err(format!("a dependency does not compile: {line}"));
            }
            failed.insert(krate, String::new());
        }
    }
    if !out.status.success() && failed.is_empty() {
        let tail: Vec<&str> = err.lines().rev().take(12).collect();
        return Err(format!("cargo check failed without a failing variant crate:\n{}", tail.into_iter().rev().collect::<Vec<_>>().join("\n")));
    }
    for (k, v) in failed.iter_mut() {
        *v = first_err.get(k).cloned().unwrap_or_else(|| "rejected by rustc".into());
    }
    Ok(failed)
}

pub fn run(sim: &mut Sim, fam: &Family) -> Outcome {
    let res = RESULTS.get_or_init(|| cargo_check(&fam.ws));
    let failed = match res {
        Ok(f) => f,
        // harness/build problem: a harness panic is reported as exit 2 by the runner
        Err(e) => panic!("e3 rustc leg: {e}"),
    };
    let mut verdicts = vec![];
    for v in &fam.variants {
        let r = failed.get(&v.krate);
        sim.event(r.is_none() as u64, || format!("VARIANT {} AST {}", v.name, v.prog.to_json()));
        sim.event(3, || format!("rustc {} variant {} (crate {}):\n{}", if r.is_none() { "ACCEPTS" } else { "REJECTS" }, v.name, v.krate, crate::emit::dfir_text(&v.prog)));
        verdicts.push((v.name.clone(), r.cloned()));
    }
    let n_rej = verdicts.iter().filter(|v| v.1.is_some()).count();
    sim.probe(if n_rej == 0 { "rustc_family_all_compile" } else if n_rej == verdicts.len() { "rustc_family_none_compiles" } else { "rustc_family_split" });
    if n_rej > 0 && n_rej < verdicts.len() {
        let detail = verdicts.iter().map(|(n, e)| format!("{n}: {}", e.clone().map(|e| format!("REJECTED ({e})")).unwrap_or_else(|| "compiles".into()))).collect::<Vec<_>>().join("; ");
        return Outcome::fail(Violation::new(format!("compile_split/rustc/{}", fam.name), detail), 0);
    }
    Outcome::ok(false, 0)
}
