//! Reference interpreter: evaluates a [`Program`] tick by tick on plain vectors, with explicit
//! operator state per persistence lifetime and explicit defer queues. It knows nothing about
//! subgraphs, handoffs, pull/push colouring or scheduling order — those are exactly what must not
//! be observable (C22/C23). Operator semantics are taken from the operator documentation in
//! `/repo/dfir_lang/src/graph/ops/*.rs` (see the per-operator comments).

use std::collections::{BTreeMap, BTreeSet};

use crate::ast::{It, Node, Op, Pers, Program};
use crate::cl;

#[derive(Clone, Debug, Default)]
enum St {
    #[default]
    None,
    Vec(Vec<It>),
    Set(BTreeSet<It>),
    /// multiset_delta: counts of the previous tick
    Counts(BTreeMap<It, usize>),
    Counter(usize),
    Acc(i16),
    /// no-replay folds: accumulator + "emitted at least once"
    AccOpt(Option<It>),
    Keyed(BTreeMap<u8, i16>),
    /// two-sided state (joins, zip, anti_join)
    Two(Vec<It>, Vec<It>),
    KeySet(BTreeSet<u8>, Vec<It>),
    ItemSet(BTreeSet<It>, Vec<It>),
    Single(Option<It>),
}

/// Output of one simulated tick.
#[derive(Clone, Debug, PartialEq, Eq)]
pub struct TickOut {
    pub tick: u64,
    /// per sink id: items in emission order (order only meaningful for `Seq` sinks)
    pub sinks: Vec<Vec<It>>,
    /// per inspect id: items seen
    pub inspects: Vec<Vec<It>>,
    /// per reference log: `(access group, item, value seen)` in execution order
    pub refs: Vec<Vec<RefSeen>>,
    /// largest stream seen in this tick (runs with huge intermediate results are discarded)
    pub max_len: usize,
    /// a non-lazy deferred buffer is non-empty at the end of the tick
    pub nonlazy_pending: bool,
    /// only lazy deferred data is pending
    pub lazy_pending: bool,
}

pub type RefSeen = (u32, It, Vec<It>);

/// Evaluation unit of a scope: a node, or a whole child loop block.
#[derive(Clone, Copy, Debug, PartialEq, Eq)]
enum Item {
    Node(usize),
    Loop(usize),
}

/// Per-tick scratch.
#[derive(Default)]
struct Tk {
    outs: Vec<Vec<Vec<It>>>,
    sinks: Vec<Vec<It>>,
    inspects: Vec<Vec<It>>,
    refs: Vec<Vec<RefSeen>>,
    arrivals: Vec<Vec<It>>,
    max_len: usize,
}

pub const LOOP_ITER_CAP: usize = 40;
/// A stream longer than this aborts the evaluation of the tick (the run is discarded).
pub const BLOWUP: usize = 400;

pub struct Interp<'p> {
    prog: &'p Program,
    order: Vec<usize>,
    st: Vec<St>,
    /// per delay node: items to deliver in the next tick
    defer: Vec<Vec<It>>,
    pub tick: u64,
    /// reach probes: names of interesting branches taken
    pub probes: BTreeSet<&'static str>,
    degs: Vec<usize>,
    /// loop programs: evaluation order per scope (index 0 = top level, 1 + l = loop l)
    scope_order: Vec<Vec<Item>>,
    /// per AllIterations node: items collected over the iterations of the loop it drains
    allit_acc: Vec<Vec<It>>,
    /// per Batch node: already released in this execution of its loop
    batch_drained: Vec<bool>,
    /// reference log id per referenced handoff node
    ref_ids: BTreeMap<usize, usize>,
    tk: Tk,
    /// a nested loop hit LOOP_ITER_CAP (the run is discarded)
    pub loop_cap_hit: bool,
    /// debugging aid: when `Some`, every node evaluation is recorded as a text line
    pub trace: Option<Vec<String>>,
}

fn dedup_keep_order(v: &mut Vec<It>, x: It) {
    if !v.contains(&x) {
        v.push(x);
    }
}

impl<'p> Interp<'p> {
    pub fn new(prog: &'p Program) -> Self {
        let order = prog.topo().expect("same-tick cycle in generated program");
        let mut st = vec![St::None; prog.nodes.len()];
        for (i, n) in prog.nodes.iter().enumerate() {
            st[i] = Self::init_state(&n.op);
        }
        let n = prog.nodes.len();
        let ref_ids = prog.ref_ids();
        let scope_order = if prog.has_loops() { Self::scope_orders(prog) } else { vec![] };
        Interp {
            prog,
            order,
            st,
            defer: vec![vec![]; n],
            tick: 0,
            probes: BTreeSet::new(),
            degs: prog.out_degree(),
            scope_order,
            allit_acc: vec![vec![]; n],
            batch_drained: vec![false; n],
            ref_ids,
            tk: Tk::default(),
            loop_cap_hit: false,
            trace: None,
        }
    }

    /// Is loop `l` equal to or nested inside `anc`?
    fn within(prog: &Program, mut l: Option<usize>, anc: usize) -> bool {
        while let Some(x) = l {
            if x == anc {
                return true;
            }
            l = prog.loops[x];
        }
        false
    }
    /// Representative of `node` in scope `scope`: itself if declared directly in it, the direct
    /// child loop containing it if it is nested deeper, `None` if it is outside the scope.
    fn rep(prog: &Program, node: usize, scope: Option<usize>) -> Option<Item> {
        let nl = prog.loop_of(node);
        if nl == scope {
            return Some(Item::Node(node));
        }
        let mut l = nl;
        while let Some(x) = l {
            if prog.loops[x] == scope {
                return Some(Item::Loop(x));
            }
            l = prog.loops[x];
        }
        None
    }
    fn scope_orders(prog: &Program) -> Vec<Vec<Item>> {
        let mut out = vec![];
        for sc in std::iter::once(None).chain((0..prog.loops.len()).map(Some)) {
            let mut items: Vec<Item> = vec![];
            for i in 0..prog.nodes.len() {
                if prog.loop_of(i) == sc {
                    items.push(Item::Node(i));
                }
            }
            for (l, par) in prog.loops.iter().enumerate() {
                if *par == sc {
                    items.push(Item::Loop(l));
                }
            }
            let idx = |it: &Item| items.iter().position(|x| x == it).unwrap();
            let mut indeg = vec![0usize; items.len()];
            let mut succ: Vec<Vec<usize>> = vec![vec![]; items.len()];
            for (b, nd) in prog.nodes.iter().enumerate() {
                if nd.op.is_delay() {
                    continue;
                }
                for s in &nd.ins {
                    let (Some(ra), Some(rb)) = (Self::rep(prog, s.node, sc), Self::rep(prog, b, sc)) else { continue };
                    if ra != rb {
                        indeg[idx(&rb)] += 1;
                        succ[idx(&ra)].push(idx(&rb));
                    }
                }
            }
            let mut ready: Vec<usize> = (0..items.len()).filter(|i| indeg[*i] == 0).collect();
            ready.reverse();
            let mut ord = vec![];
            while let Some(i) = ready.pop() {
                ord.push(items[i]);
                for &j in &succ[i] {
                    indeg[j] -= 1;
                    if indeg[j] == 0 {
                        ready.push(j);
                    }
                }
            }
            assert_eq!(ord.len(), items.len(), "cycle between loop blocks");
            out.push(ord);
        }
        out
    }

    fn init_state(op: &Op) -> St {
        match op {
            Op::Persist => St::Vec(vec![]),
            Op::Unique { .. } => St::Set(BTreeSet::new()),
            Op::MultisetDelta => St::Counts(BTreeMap::new()),
            Op::Enumerate { .. } => St::Counter(0),
            Op::Fold { f, .. } | Op::FoldNoReplay { f, .. } => St::Acc(cl::fold_init(*f)),
            Op::Scan { f, .. } => St::Acc(cl::scan_init(*f)),
            Op::Reduce { .. } | Op::ReduceNoReplay { .. } => St::AccOpt(None),
            Op::FoldKeyed { .. } | Op::ReduceKeyed { .. } => St::Keyed(BTreeMap::new()),
            Op::Join { .. } | Op::CrossJoin { .. } | Op::Zip { .. } => St::Two(vec![], vec![]),
            Op::AntiJoin { .. } => St::KeySet(BTreeSet::new(), vec![]),
            Op::Difference { .. } => St::ItemSet(BTreeSet::new(), vec![]),
            Op::CrossSingleton { .. } => St::Single(None),
            Op::DeferSignal => St::Vec(vec![]),
            _ => St::None,
        }
    }

    /// Run one tick with the given external arrivals (per channel).
    pub fn run_tick(&mut self, arrivals: &[Vec<It>]) -> TickOut {
        let prog = self.prog;
        let n = prog.nodes.len();
        self.tk = Tk {
            outs: vec![vec![]; n],
            sinks: vec![vec![]; prog.n_sinks()],
            inspects: vec![vec![]; prog.n_inspect],
            refs: vec![vec![]; self.ref_ids.len()],
            arrivals: arrivals.to_vec(),
            max_len: 0,
        };
        if prog.has_loops() {
            self.run_scope(None);
        } else {
            for &i in &self.order.clone() {
                self.eval_node(i);
            }
            self.collect_defers(None);
        }
        // another tick is due iff a non-lazy deferred buffer (top level or root-level loop) holds data
        let mut nonlazy_pending = false;
        let mut lazy_pending = false;
        for (i, node) in prog.nodes.iter().enumerate() {
            let tick_level = prog.loop_of(i).is_none_or(|l| prog.loops[l].is_none());
            if node.op.is_delay() && tick_level && !self.defer[i].is_empty() {
                match node.op {
                    Op::DeferTick => nonlazy_pending = true,
                    _ => lazy_pending = true,
                }
            }
        }
        // end of tick: 'tick state is cleared
        for (i, node) in prog.nodes.iter().enumerate() {
            self.end_tick(i, &node.op);
        }
        let t = self.tick;
        self.tick += 1;
        let tk = std::mem::take(&mut self.tk);
        TickOut { tick: t, sinks: tk.sinks, inspects: tk.inspects, refs: tk.refs, max_len: tk.max_len, nonlazy_pending, lazy_pending: lazy_pending && !nonlazy_pending }
    }

    /// Evaluate node `i` from the current outputs of its inputs.
    fn eval_node(&mut self, i: usize) {
        let node: &Node = &self.prog.nodes[i];
        // delay nodes: output what was buffered before; their input is collected at the end of the
        // tick / iteration (`collect_defers`)
        if node.op.is_delay() {
            let v = std::mem::take(&mut self.defer[i]);
            if !v.is_empty() {
                self.probes.insert(if matches!(node.op, Op::DeferTick) { "defer_delivered" } else { "lazy_defer_delivered" });
            }
            self.tk.outs[i] = vec![v];
            return;
        }
        if self.tk.max_len > BLOWUP {
            // intermediate results exploded: the run will be discarded, stop computing
            self.tk.outs[i] = vec![vec![]; self.degs[i].max(1)];
            return;
        }
        let ins: Vec<Vec<It>> = node.ins.iter().map(|s| self.tk.outs[s.node].get(s.port).cloned().unwrap_or_default()).collect();
        let o = self.eval(i, &node.op, ins);
        for v in &o {
            self.tk.max_len = self.tk.max_len.max(v.len());
        }
        if let Some(t) = &mut self.trace {
            t.push(format!("tick {} n{i} {}: {:?}", self.tick, node.op.name(), o));
        }
        self.tk.outs[i] = o;
    }

    /// Buffer the current inputs of the delay nodes declared directly in `scope`.
    fn collect_defers(&mut self, scope: Option<usize>) {
        for (i, node) in self.prog.nodes.iter().enumerate() {
            if node.op.is_delay() && (!self.prog.has_loops() || self.prog.loop_of(i) == scope) {
                let s = node.ins[0];
                self.defer[i] = self.tk.outs[s.node].get(s.port).cloned().unwrap_or_default();
            }
        }
    }

    // ---- loop blocks ------------------------------------------------------------------------

    fn run_scope(&mut self, scope: Option<usize>) {
        let items = self.scope_order[scope.map_or(0, |l| l + 1)].clone();
        for it in items {
            match it {
                Item::Node(i) => self.eval_node(i),
                Item::Loop(l) => self.run_loop(l),
            }
        }
        if scope.is_none() {
            self.collect_defers(None);
        }
    }

    /// Gate of loop `l`: a non-lazy entry input (`batch()`) holds data, or a non-lazy deferred
    /// buffer of the loop holds data.
    fn loop_gate(&self, l: usize) -> bool {
        for (i, node) in self.prog.nodes.iter().enumerate() {
            if self.prog.loop_of(i) != Some(l) {
                continue;
            }
            match node.op {
                Op::Batch if !self.batch_drained[i] => {
                    let s = node.ins[0];
                    if self.tk.outs[s.node].get(s.port).is_some_and(|v| !v.is_empty()) {
                        return true;
                    }
                }
                Op::DeferTick if !self.defer[i].is_empty() => return true,
                _ => {}
            }
        }
        false
    }

    fn run_loop(&mut self, l: usize) {
        let prog = self.prog;
        let is_root = prog.loops[l].is_none();
        let members: Vec<usize> = (0..prog.nodes.len()).filter(|&i| Self::within(prog, prog.loop_of(i), l)).collect();
        for &i in &members {
            self.batch_drained[i] = false;
            // nothing inside the block has run yet in this execution
            let d = self.degs[i].max(1);
            self.tk.outs[i] = vec![vec![]; d];
        }
        let mut iters = 0usize;
        while self.loop_gate(l) {
            if iters >= LOOP_ITER_CAP {
                self.loop_cap_hit = true;
                break;
            }
            self.run_scope(Some(l));
            iters += 1;
            // end of the iteration: loop-delayed data becomes visible to the next iteration,
            // entry inputs have been consumed, all_iterations() keeps what left the loop
            self.collect_defers(Some(l));
            for (i, node) in prog.nodes.iter().enumerate() {
                if prog.loop_of(i) == Some(l) && matches!(node.op, Op::Batch | Op::BatchLazy) {
                    self.batch_drained[i] = true;
                }
                if matches!(node.op, Op::AllIterations) {
                    let s = node.ins[0];
                    if prog.loop_of(s.node) == Some(l) {
                        let v = self.tk.outs[s.node].get(s.port).cloned().unwrap_or_default();
                        self.allit_acc[i].extend(v);
                    }
                }
            }
            if is_root {
                // a root-level loop is fused with the tick: at most one firing per tick
                break;
            }
        }
        if iters == 0 {
            self.probes.insert(if is_root { "root_loop_not_fired" } else { "nested_loop_not_fired" });
        } else if is_root {
            self.probes.insert("root_loop_fired");
        } else if iters > 1 {
            self.probes.insert("nested_loop_iterated");
        }
    }

    fn end_tick(&mut self, i: usize, op: &Op) {
        let st = &mut self.st[i];
        match op {
            Op::Unique { p: Pers::Tick } => *st = St::Set(BTreeSet::new()),
            Op::Enumerate { p: Pers::Tick } => *st = St::Counter(0),
            Op::Fold { p: Pers::Tick, f } | Op::FoldNoReplay { p: Pers::Tick, f } => *st = St::Acc(cl::fold_init(*f)),
            Op::Scan { p: Pers::Tick, f } => *st = St::Acc(cl::scan_init(*f)),
            Op::Reduce { p: Pers::Tick, .. } | Op::ReduceNoReplay { p: Pers::Tick, .. } => *st = St::AccOpt(None),
            Op::FoldKeyed { p: Pers::Tick, .. } | Op::ReduceKeyed { p: Pers::Tick, .. } => *st = St::Keyed(BTreeMap::new()),
            Op::Join { pl, pr, .. } | Op::CrossJoin { pl, pr, .. } => {
                if let St::Two(l, r) = st {
                    if *pl == Pers::Tick {
                        l.clear();
                    }
                    if *pr == Pers::Tick {
                        r.clear();
                    }
                }
            }
            Op::Zip { .. } => {
                // only 'tick zip is generated: excess is discarded at the end of the tick
                *st = St::Two(vec![], vec![]);
            }
            Op::AntiJoin { pp, pn } => {
                if let St::KeySet(neg, pos) = st {
                    if *pn == Pers::Tick {
                        neg.clear();
                    }
                    if *pp == Pers::Tick {
                        pos.clear();
                    }
                }
            }
            Op::Difference { pp, pn } => {
                if let St::ItemSet(neg, pos) = st {
                    if *pn == Pers::Tick {
                        neg.clear();
                    }
                    if *pp == Pers::Tick {
                        pos.clear();
                    }
                }
            }
            Op::CrossSingleton { .. } => *st = St::Single(None),
            _ => {}
        }
    }

    fn eval(&mut self, i: usize, op: &Op, mut ins: Vec<Vec<It>>) -> Vec<Vec<It>> {
        let tick = self.tick;
        let out_deg = self.degs[i];
        let mut in0 = || std::mem::take(&mut ins[0]);
        let one = |v: Vec<It>| vec![v];
        match op {
            Op::Src { chan } => one(self.tk.arrivals.get(*chan).cloned().unwrap_or_default()),
            // source_iter: "all elements are emitted during the first tick"
            Op::SrcIter { items } => one(if tick == 0 { items.clone() } else { vec![] }),
            Op::NullSrc => one(vec![]),
            Op::Map { f } => one(in0().into_iter().map(|x| cl::map_f(*f, x)).collect()),
            Op::Filter { f } => one(in0().into_iter().filter(|x| cl::filter_f(*f, x)).collect()),
            Op::FilterMap { f } => one(in0().into_iter().filter_map(|x| cl::filter_map_f(*f, x)).collect()),
            Op::FlatMap { f } | Op::Flatten { f } => one(in0().into_iter().flat_map(|x| cl::flat_map_f(*f, x)).collect()),
            Op::Inspect { id } => {
                let v = in0();
                self.tk.inspects[*id].extend(v.iter().copied());
                one(v)
            }
            Op::Identity | Op::MapId => one(in0()),
            Op::Decay => one(in0().into_iter().filter_map(cl::decay_f).collect()),
            // persist: "stores each item as it passes through, and replays all items every tick"
            Op::Persist => {
                let v = in0();
                let St::Vec(s) = &mut self.st[i] else { unreachable!() };
                if !s.is_empty() {
                    self.probes.insert("persist_replayed");
                }
                s.extend(v);
                one(s.clone())
            }
            // unique: first occurrence within the lifetime passes, later ones are dropped
            Op::Unique { p } => {
                let v = in0();
                let St::Set(s) = &mut self.st[i] else { unreachable!() };
                if *p == Pers::Static && !s.is_empty() {
                    self.probes.insert("static_state_kept");
                }
                one(v.into_iter().filter(|x| s.insert(*x)).collect())
            }
            // multiset_delta: only the growth of each item's count over the previous tick
            Op::MultisetDelta => {
                let v = in0();
                let St::Counts(prev) = &mut self.st[i] else { unreachable!() };
                let mut cur: BTreeMap<It, usize> = BTreeMap::new();
                let mut out = vec![];
                for x in v {
                    let c = cur.entry(x).or_insert(0);
                    *c += 1;
                    if *c > prev.get(&x).copied().unwrap_or(0) {
                        out.push(x);
                    } else {
                        self.probes.insert("multiset_delta_suppressed");
                    }
                }
                *prev = cur;
                one(out)
            }
            Op::Sort => {
                let mut v = in0();
                v.sort();
                one(v)
            }
            Op::SortByKey { f } => {
                let mut v = in0();
                v.sort_by_key(|x| cl::sort_key(*f, x));
                one(v)
            }
            Op::Enumerate { .. } => {
                let v = in0();
                let St::Counter(c) = &mut self.st[i] else { unreachable!() };
                one(v
                    .into_iter()
                    .map(|x| {
                        let r = cl::enum_back(*c, x);
                        *c += 1;
                        r
                    })
                    .collect())
            }
            // fold: emits the accumulator once per tick (also on empty input)
            Op::Fold { f, p } => {
                let v = in0();
                let St::Acc(a) = &mut self.st[i] else { unreachable!() };
                if *p == Pers::Static && tick > 0 {
                    self.probes.insert("static_state_kept");
                }
                for x in v {
                    cl::fold_f(*f, a, x);
                }
                one(vec![cl::fold_back(*a)])
            }
            // reduce: emits the accumulator once per tick if there is one
            Op::Reduce { f, .. } => {
                let v = in0();
                let St::AccOpt(a) = &mut self.st[i] else { unreachable!() };
                for x in v {
                    match a {
                        None => *a = Some(x),
                        Some(acc) => cl::reduce_f(*f, acc, x),
                    }
                }
                one(a.iter().copied().collect())
            }
            // fold_no_replay / reduce_no_replay: "does not replay the accumulated value on ticks
            // where there is no new input" (the generator guarantees new input in the first tick,
            // where the documentation is silent)
            Op::FoldNoReplay { f, .. } => {
                let v = in0();
                let St::Acc(a) = &mut self.st[i] else { unreachable!() };
                let had = !v.is_empty();
                for x in v {
                    cl::fold_f(*f, a, x);
                }
                if !had {
                    self.probes.insert("no_replay_silent_tick");
                }
                one(if had { vec![cl::fold_back(*a)] } else { vec![] })
            }
            Op::ReduceNoReplay { f, .. } => {
                let v = in0();
                let St::AccOpt(a) = &mut self.st[i] else { unreachable!() };
                let had = !v.is_empty();
                for x in v {
                    match a {
                        None => *a = Some(x),
                        Some(acc) => cl::reduce_f(*f, acc, x),
                    }
                }
                if !had {
                    self.probes.insert("no_replay_silent_tick");
                }
                one(if had { a.iter().copied().collect() } else { vec![] })
            }
            // fold_keyed / reduce_keyed: one tuple per distinct key with the accumulated value
            Op::FoldKeyed { f, .. } => {
                let v = in0();
                let St::Keyed(m) = &mut self.st[i] else { unreachable!() };
                for (k, val) in v {
                    let e = m.entry(k).or_insert_with(|| cl::keyed_init(*f));
                    cl::keyed_f(*f, e, val);
                }
                one(m.iter().map(|(k, v)| (*k, *v)).collect())
            }
            Op::ReduceKeyed { f, .. } => {
                let v = in0();
                let St::Keyed(m) = &mut self.st[i] else { unreachable!() };
                for (k, val) in v {
                    match m.get_mut(&k) {
                        None => {
                            m.insert(k, val);
                        }
                        Some(e) => cl::keyed_f(*f, e, val),
                    }
                }
                one(m.iter().map(|(k, v)| (*k, *v)).collect())
            }
            Op::Scan { f, .. } => {
                let v = in0();
                let St::Acc(a) = &mut self.st[i] else { unreachable!() };
                one(v.into_iter().filter_map(|x| cl::scan_f(*f, a, x)).collect())
            }
            Op::DeferTick | Op::DeferTickLazy => unreachable!(),
            Op::Union | Op::Chain => one(ins.into_iter().flatten().collect()),
            Op::ChainFirstN { n } => one(ins.into_iter().flatten().take(*n).collect()),
            // join: per tick, the (set / multiset) equijoin of everything persisted on either side
            Op::Join { multiset, f, pl, pr } => {
                let (a, b) = (std::mem::take(&mut ins[0]), std::mem::take(&mut ins[1]));
                let St::Two(l, r) = &mut self.st[i] else { unreachable!() };
                if (*pl == Pers::Static && !l.is_empty()) || (*pr == Pers::Static && !r.is_empty()) {
                    self.probes.insert("static_state_kept");
                }
                for x in a {
                    if *multiset { l.push(x) } else { dedup_keep_order(l, x) }
                }
                for x in b {
                    if *multiset { r.push(x) } else { dedup_keep_order(r, x) }
                }
                let mut out = vec![];
                for &(k, va) in l.iter() {
                    for &(k2, vb) in r.iter() {
                        if k == k2 {
                            out.push(cl::join_back(*f, k, va, vb));
                        }
                    }
                }
                one(out)
            }
            Op::CrossJoin { multiset, f, pl, pr } => {
                let (a, b) = (std::mem::take(&mut ins[0]), std::mem::take(&mut ins[1]));
                let St::Two(l, r) = &mut self.st[i] else { unreachable!() };
                if (*pl == Pers::Static && !l.is_empty()) || (*pr == Pers::Static && !r.is_empty()) {
                    self.probes.insert("static_state_kept");
                }
                for x in a {
                    if *multiset { l.push(x) } else { dedup_keep_order(l, x) }
                }
                for x in b {
                    if *multiset { r.push(x) } else { dedup_keep_order(r, x) }
                }
                let mut out = vec![];
                for &x in l.iter() {
                    for &y in r.iter() {
                        out.push(cl::pair_back(*f, x, y));
                    }
                }
                one(out)
            }
            // anti_join: pos items whose key is not on the (whole tick's / persisted) neg side;
            // multiset semantics on pos, set semantics on neg
            Op::AntiJoin { pp, .. } => {
                let (pos, neg) = (std::mem::take(&mut ins[0]), std::mem::take(&mut ins[1]));
                let St::KeySet(ns, ps) = &mut self.st[i] else { unreachable!() };
                if !ns.is_empty() || !ps.is_empty() {
                    self.probes.insert("static_state_kept");
                }
                ns.extend(neg.iter().map(|x| x.0));
                let cand: Vec<It> = if *pp == Pers::Static {
                    ps.extend(pos);
                    ps.clone()
                } else {
                    pos
                };
                one(cand.into_iter().filter(|x| !ns.contains(&x.0)).collect())
            }
            // difference: same as anti_join on whole items ("set semantics only for the neg input")
            Op::Difference { pp, .. } => {
                let (pos, neg) = (std::mem::take(&mut ins[0]), std::mem::take(&mut ins[1]));
                let St::ItemSet(ns, ps) = &mut self.st[i] else { unreachable!() };
                if !ns.is_empty() || !ps.is_empty() {
                    self.probes.insert("static_state_kept");
                }
                ns.extend(neg);
                let cand: Vec<It> = if *pp == Pers::Static {
                    ps.extend(pos);
                    ps.clone()
                } else {
                    pos
                };
                one(cand.into_iter().filter(|x| !ns.contains(x)).collect())
            }
            // zip ('tick): pairs in order, excess discarded at the end of the tick
            Op::Zip { f } => {
                let (a, b) = (std::mem::take(&mut ins[0]), std::mem::take(&mut ins[1]));
                if a.len() != b.len() {
                    self.probes.insert("zip_unequal");
                }
                one(a.into_iter().zip(b).map(|(x, y)| cl::pair_back(*f, x, y)).collect())
            }
            Op::ZipLongest { f } => {
                let (a, b) = (std::mem::take(&mut ins[0]), std::mem::take(&mut ins[1]));
                let n = a.len().max(b.len());
                one((0..n).map(|j| cl::longest_back(*f, a.get(j).copied(), b.get(j).copied())).collect())
            }
            // cross_singleton ('tick): pairs every input item with the single item, nothing if
            // the singleton side is empty
            Op::CrossSingleton { f } => {
                let (a, s) = (std::mem::take(&mut ins[0]), std::mem::take(&mut ins[1]));
                match s.first() {
                    Some(&s0) => one(a.into_iter().map(|x| cl::pair_back(*f, x, s0)).collect()),
                    None => {
                        self.probes.insert("cross_singleton_empty");
                        one(vec![])
                    }
                }
            }
            // defer_signal: buffer (in order) until anything arrives on signal
            Op::DeferSignal => {
                let (a, s) = (std::mem::take(&mut ins[0]), std::mem::take(&mut ins[1]));
                let St::Vec(buf) = &mut self.st[i] else { unreachable!() };
                buf.extend(a);
                if !s.is_empty() {
                    one(std::mem::take(buf))
                } else {
                    if !buf.is_empty() {
                        self.probes.insert("defer_signal_held");
                    }
                    one(vec![])
                }
            }
            Op::Tee => {
                let v = in0();
                (0..out_deg.max(1)).map(|_| v.clone()).collect()
            }
            Op::Partition { f, n } => {
                let v = in0();
                let mut o = vec![vec![]; *n];
                for x in v {
                    o[cl::part_f(*f, &x, *n)].push(x);
                }
                o
            }
            Op::DemuxEnum { f } => {
                let v = in0();
                let mut o = vec![vec![]; 3];
                for x in v {
                    o[cl::part_f(*f, &x, 3)].push(x);
                }
                o
            }
            Op::Unzip { f } => {
                let v = in0();
                let (a, b): (Vec<It>, Vec<It>) = v.into_iter().map(|x| cl::unzip_f(*f, x)).unzip();
                vec![a, b]
            }
            // handoff pseudo-operators hold the tick's value; reference holders may update it in
            // place before the pipe consumer (if any) sees it
            Op::HoffSingleton | Op::HoffOptional | Op::HoffVec => one(in0()),
            Op::RefMap { target, group, write, f } => {
                let v = in0();
                let rid = self.ref_ids[target];
                let mut out = Vec::with_capacity(v.len());
                for x in v {
                    let cur = &mut self.tk.outs[*target][0];
                    let seen = cur.clone();
                    let y = if *write { cl::ref_write(*f, x, cur) } else { cl::ref_read(*f, x, cur) };
                    self.tk.refs[rid].push((*group, x, seen));
                    out.push(y);
                }
                if *write {
                    self.probes.insert("ref_write");
                }
                one(out)
            }
            // batch()/batch_lazy(): release the entry input once per execution of the loop
            Op::Batch | Op::BatchLazy => {
                if self.batch_drained[i] {
                    one(vec![])
                } else {
                    one(in0())
                }
            }
            // all_iterations(): everything that left the loop over all its iterations
            Op::AllIterations => one(std::mem::take(&mut self.allit_acc[i])),
            Op::Sink { id } => {
                let v = in0();
                self.tk.sinks[*id].extend(v);
                vec![]
            }
            Op::Null => vec![],
        }
    }
}
