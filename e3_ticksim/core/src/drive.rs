//! Driving a compiled DFIR program under a seeded arrival schedule and comparing what it did with
//! the reference interpreter's prediction.
//!
//! The simulator owns: which items of which external input have arrived before which tick (empty
//! ticks, bursts, one-by-one), and how the runtime is driven (`run_tick_sync` per tick, or
//! `run_available_sync` where the *runtime* decides how many ticks to run).

use std::cell::RefCell;
use std::collections::BTreeMap;
use std::panic::{AssertUnwindSafe, catch_unwind, resume_unwind};
use std::rc::Rc;

use dfir_rs::scheduled::context::{Dfir, TickClosure};
use simcore::{Outcome, Sim, Violation};
use tokio::sync::mpsc::UnboundedSender;
use tokio_stream::wrappers::UnboundedReceiverStream;

use crate::ast::{It, Order, Program};
use crate::interp::{Interp, TickOut};

/// Hard cap on the ticks one `run_available_sync` call may need according to the interpreter;
/// steps that would need more (e.g. a `persist` feeding a non-lazy `defer_tick`: never idle) are
/// demoted to a single `run_tick_sync`.
pub const AVAIL_CAP: usize = 10;
/// The compiled program is stopped (by a panic raised in the watchdog sink) when it runs this many
/// ticks more than predicted inside one `run_available_sync` call.
pub const RUNAWAY_SLACK: u64 = 6;
/// Upper bound on the sink items of one run (predictions are far below: streams are capped at
/// `MAX_STREAM` per tick).
pub const SINK_LOG_CAP: usize = 200_000;

// ---------------------------------------------------------------------------------------------
// Plan (the schedule)

#[derive(Clone, Debug, PartialEq, Eq)]
pub struct Step {
    /// items sent into each channel before this step's first tick
    pub arrivals: Vec<Vec<It>>,
    /// drive with `run_available_sync` (true) or one `run_tick_sync` (false)
    pub avail: bool,
}

#[derive(Clone, Debug, PartialEq, Eq)]
pub struct Plan {
    pub steps: Vec<Step>,
}

/// Draw a schedule. Knobs first (swarm testing), then the per-step arrivals.
pub fn draw_plan(sim: &mut Sim, n_chans: usize) -> Plan {
    // knobs
    let n_steps = sim.choose("n_steps", 1, 7) as usize;
    let kd = sim.choose("key_dom", 1, crate::cl::KD as u64) as u8;
    let vd = sim.choose("val_dom", 1, crate::cl::VD as u64) as i16;
    let max_items = sim.choose("max_items", 1, 5);
    // probability (in 1/8) that a channel is silent in a step
    let p_silent = sim.choose("p_silent", 0, 6);
    // probability (in 1/8) that a step is driven by run_available_sync
    let p_avail = sim.choose("p_avail", 0, 6);
    // a burst: one step gets many items at once
    let burst_step = if sim.flip("burst", 1, 4) { Some(sim.choose("burst_at", 0, n_steps as u64 - 1) as usize) } else { None };
    let mut chan_on = vec![true; n_chans];
    if n_chans > 1 {
        // some runs starve one channel completely
        if sim.flip("starve", 1, 6) {
            let c = sim.choose("starve_chan", 0, n_chans as u64 - 1) as usize;
            chan_on[c] = false;
            sim.fault("starved_channel");
        }
    }
    let mut steps = Vec::with_capacity(n_steps);
    for s in 0..n_steps {
        let avail = sim.flip("avail", p_avail, 8);
        if avail {
            sim.fault("run_available_step");
        }
        let mut arrivals = Vec::with_capacity(n_chans);
        let mut any = false;
        for on in chan_on.iter().take(n_chans) {
            let mut v = vec![];
            if *on && !sim.flip("silent", p_silent, 8) {
                let cap = if burst_step == Some(s) { max_items * 3 } else { max_items };
                let n = sim.choose("n_items", 0, cap);
                for _ in 0..n {
                    let k = sim.choose("k", 0, kd as u64 - 1) as u8;
                    let val = sim.choose("v", 0, vd as u64 - 1) as i16;
                    v.push((k, val));
                }
                if burst_step == Some(s) && n > max_items {
                    sim.fault("burst");
                }
            }
            any |= !v.is_empty();
            arrivals.push(v);
        }
        if !any {
            sim.fault("empty_tick");
        }
        steps.push(Step { arrivals, avail });
    }
    Plan { steps }
}

// ---------------------------------------------------------------------------------------------
// What the compiled program did

#[derive(Clone, Debug, Default)]
pub struct RunLog {
    /// (sink id, tick, item) in the order the sinks were called
    pub sink: Vec<(usize, u64, It)>,
    /// (inspect id, tick, item)
    pub inspect: Vec<(usize, u64, It)>,
    /// (reference log id, tick, access group, item, value seen) in execution order
    pub refs: Vec<(usize, u64, u32, It, Vec<It>)>,
    /// ticks at which the watchdog clock fired (in order)
    pub clock: Vec<u64>,
    /// the watchdog raises a panic when the tick counter reaches this value
    pub tick_limit: u64,
    pub runaway: bool,
}

#[derive(Clone)]
pub struct Log(pub Rc<RefCell<RunLog>>);
impl Log {
    #[inline]
    pub fn sink(&self, id: usize, tick: u64, x: It) {
        let mut l = self.0.borrow_mut();
        l.sink.push((id, tick, x));
        if l.sink.len() > SINK_LOG_CAP {
            // a compiled program that keeps producing output (e.g. a loop block that never stops):
            // stop it the same way the per-tick watchdog does
            l.runaway = true;
            drop(l);
            panic!("e3 watchdog: a compiled program produced more than {SINK_LOG_CAP} sink items in one run");
        }
    }
    #[inline]
    pub fn inspect(&self, id: usize, tick: u64, x: It) {
        self.0.borrow_mut().inspect.push((id, tick, x));
    }
    /// Reading reference closure (C25): logs `(group, item, value seen)`.
    pub fn ref_read(&self, rid: usize, group: u32, tick: u64, f: u8, x: It, seen: &[It]) -> It {
        self.0.borrow_mut().refs.push((rid, tick, group, x, seen.to_vec()));
        crate::cl::ref_read(f, x, seen)
    }
    /// Updating reference closure (C25).
    pub fn ref_write(&self, rid: usize, group: u32, tick: u64, f: u8, x: It, cur: &mut [It]) -> It {
        self.0.borrow_mut().refs.push((rid, tick, group, x, cur.to_vec()));
        crate::cl::ref_write(f, x, cur)
    }
    /// Watchdog clock: every generated program contains
    /// `source_iter([()]) -> persist::<'static>() -> for_each(|_| log.clock(tick))`, which fires
    /// once in every executed tick.
    pub fn clock(&self, tick: u64) {
        let mut l = self.0.borrow_mut();
        l.clock.push(tick);
        if tick >= l.tick_limit {
            l.runaway = true;
            drop(l);
            panic!("e3 watchdog: run_available_sync did not stop");
        }
    }
}

/// Channels + log handed to the generated `build_*` function.
pub struct Io {
    pub log: Log,
    pub txs: Vec<UnboundedSender<It>>,
    rxs: Vec<Option<UnboundedReceiverStream<It>>>,
}
impl Io {
    pub fn new(n_chans: usize) -> Io {
        let mut txs = vec![];
        let mut rxs = vec![];
        for _ in 0..n_chans {
            let (tx, rx) = dfir_rs::util::unbounded_channel::<It>();
            txs.push(tx);
            rxs.push(Some(rx));
        }
        Io { log: Log(Rc::new(RefCell::new(RunLog { tick_limit: u64::MAX, ..Default::default() }))), txs, rxs }
    }
    pub fn take_rx(&mut self, i: usize) -> UnboundedReceiverStream<It> {
        self.rxs[i].take().expect("rx taken twice")
    }
}

thread_local! {
    /// (message, location) of the last panic on this thread, recorded by `install_panic_probe`
    static LAST_PANIC: RefCell<Option<(String, String)>> = const { RefCell::new(None) };
}

/// Chain a panic hook in front of the runner's: it records message and location per thread, so
/// that a panic raised *by the code under test* while a compiled dataflow runs can be told apart
/// from a harness panic. The DFIR-generated code is macro-expanded into the generated crates, so
/// its panics (`singleton() received more than one item`, `Option::unwrap()` on a drained
/// singleton reference, ...) carry a location inside `e3g_*/src/p*.rs`.
fn install_panic_probe() {
    static ONCE: std::sync::Once = std::sync::Once::new();
    ONCE.call_once(|| {
        let prev = std::panic::take_hook();
        std::panic::set_hook(Box::new(move |info| {
            let msg = if let Some(s) = info.payload().downcast_ref::<&str>() {
                s.to_string()
            } else if let Some(s) = info.payload().downcast_ref::<String>() {
                s.clone()
            } else {
                "<non-string panic>".to_string()
            };
            let loc = info.location().map(|l| format!("{}:{}", l.file(), l.line())).unwrap_or_default();
            LAST_PANIC.with(|p| *p.borrow_mut() = Some((msg, loc)));
            prev(info);
        }));
    });
}

/// Is a panic location inside the code under test (DFIR runtime, its dependencies, or the
/// DFIR-generated code expanded into a generated program module)?
fn sut_location(loc: &str) -> bool {
    let gen_module = loc.rsplit('/').next().is_some_and(|f| {
        let f = f.split(':').next().unwrap_or("");
        f.starts_with('p') && f.ends_with(".rs") && f[1..f.len() - 3].chars().all(|c| c.is_ascii_digit()) && f.len() > 4
    }) && loc.contains("e3g_");
    gen_module || loc.starts_with("/repo/") || loc.contains(".cargo/registry") || loc.starts_with("/rustc/")
}

#[derive(Clone, Debug, Default)]
pub struct Observed {
    /// the compiled program panicked inside the code under test: (message, location)
    pub panic: Option<(String, String)>,
    pub log: RunLog,
    /// `df.current_tick()` after each step
    pub tick_after: Vec<u64>,
    /// the run was aborted by the watchdog
    pub runaway: bool,
}

/// Drive a compiled dataflow according to `plan`. `ticks_per_step` is the interpreter's
/// prediction, used only to arm the watchdog.
pub fn drive<T: TickClosure>(df: &mut Dfir<T>, io: &mut Io, plan: &Plan, ticks_per_step: &[usize]) -> Observed {
    install_panic_probe();
    let mut obs = Observed::default();
    let mut expect_tick = 0u64;
    for (si, step) in plan.steps.iter().enumerate() {
        for (c, items) in step.arrivals.iter().enumerate() {
            for it in items {
                // the receiver lives inside the dataflow; a send can only fail if it was dropped
                let _ = io.txs[c].send(*it);
            }
        }
        expect_tick += ticks_per_step[si] as u64;
        io.log.0.borrow_mut().tick_limit = expect_tick + RUNAWAY_SLACK;
        let r = catch_unwind(AssertUnwindSafe(|| {
            if step.avail {
                df.run_available_sync();
            } else {
                df.run_tick_sync();
            }
        }));
        if let Err(p) = r {
            if io.log.0.borrow().runaway {
                obs.runaway = true;
                obs.tick_after.push(df.current_tick().0);
                break;
            }
            let last = LAST_PANIC.with(|l| l.borrow_mut().take());
            match last {
                Some((msg, loc)) if sut_location(&loc) => {
                    obs.panic = Some((msg, loc));
                    obs.tick_after.push(df.current_tick().0);
                    break;
                }
                // a harness panic: let the runner report it as a harness error
                _ => resume_unwind(p),
            }
        }
        obs.tick_after.push(df.current_tick().0);
    }
    obs.log = io.log.0.borrow().clone();
    obs
}

// ---------------------------------------------------------------------------------------------
// Prediction

#[derive(Clone, Debug)]
pub struct Predicted {
    /// per step: the ticks it executes
    pub steps: Vec<Vec<TickOut>>,
    pub probes: Vec<&'static str>,
    /// intermediate results exploded (or a nested loop did not terminate within the cap): the run
    /// is discarded before the compiled program is executed
    pub too_big: bool,
}

/// Streams longer than this make a run vacuous-by-cost; it is discarded.
pub const MAX_STREAM: usize = crate::interp::BLOWUP;

/// Run the interpreter over the plan. Steps driven by `run_available_sync` tick again while a
/// non-lazy deferred buffer is non-empty at the end of a tick (and not for lazy-only data). A step
/// whose prediction exceeds [`AVAIL_CAP`] ticks is *demoted* to a plain tick (the plan is edited).
pub fn predict(prog: &Program, plan: &mut Plan) -> Predicted {
    'retry: loop {
        let mut it = Interp::new(prog);
        let mut steps = vec![];
        let empty: Vec<Vec<It>> = vec![vec![]; prog.n_chans];
        for si in 0..plan.steps.len() {
            let mut ticks = vec![it.run_tick(&plan.steps[si].arrivals)];
            if plan.steps[si].avail {
                while ticks.last().unwrap().nonlazy_pending {
                    if ticks.len() >= AVAIL_CAP {
                        plan.steps[si].avail = false;
                        continue 'retry;
                    }
                    ticks.push(it.run_tick(&empty));
                }
                if ticks.len() > 1 {
                    it.probes.insert("avail_extra_ticks");
                }
                if ticks.last().unwrap().lazy_pending {
                    it.probes.insert("avail_stopped_with_lazy_pending");
                }
            }
            steps.push(ticks);
        }
        let too_big = it.loop_cap_hit || steps.iter().flatten().any(|t: &TickOut| t.max_len > MAX_STREAM);
        return Predicted { steps, probes: it.probes.iter().copied().collect(), too_big };
    }
}

// ---------------------------------------------------------------------------------------------
// Comparison

fn multiset(v: &[It]) -> BTreeMap<It, usize> {
    let mut m = BTreeMap::new();
    for x in v {
        *m.entry(*x).or_insert(0) += 1;
    }
    m
}

/// Compare one variant's observation with the prediction. Returns `(class suffix, detail)`.
pub fn compare(prog: &Program, plan: &Plan, pred: &Predicted, obs: &Observed) -> Option<(String, String)> {
    if let Some((msg, loc)) = &obs.panic {
        let file = loc.rsplit('/').next().unwrap_or("").split(':').next().unwrap_or("");
        let wher = if loc.contains("e3g_") { "generated_code".to_string() } else { file.to_string() };
        return Some((format!("panic/{wher}"), format!("the compiled program panicked at {loc}: {msg}")));
    }
    // tick counter: after each step the counter must equal the number of predicted ticks so far
    let mut t = 0u64;
    for (si, ticks) in pred.steps.iter().enumerate() {
        t += ticks.len() as u64;
        match obs.tick_after.get(si) {
            Some(&got) if got == t => {}
            Some(&got) => {
                let avail = plan.steps.get(si).is_some_and(|s| s.avail);
                let what = if avail { "run_available_tick_count" } else { "tick_counter" };
                return Some((
                    format!("tick_count/{what}"),
                    format!(
                        "after step {si} ({}) current_tick()={got}, expected {t} ({} ticks predicted for this step){}",
                        if avail { "run_available_sync" } else { "run_tick_sync" },
                        ticks.len(),
                        if obs.runaway { " (stopped by watchdog)" } else { "" }
                    ),
                ));
            }
            None => return Some(("tick_count/missing_step".into(), format!("step {si} not executed"))),
        }
    }
    let total_ticks = t;
    // watchdog clock: exactly once per executed tick, consecutive tick numbers from 0
    let want_clock: Vec<u64> = (0..total_ticks).collect();
    if obs.log.clock != want_clock {
        return Some(("tick_count/clock".into(), format!("per-tick clock observed ticks {:?}, expected 0..{total_ticks}", obs.log.clock)));
    }
    // references (C25): per tick and referenced handoff, closures of an earlier access group run
    // (for all their items) before any closure of a later group, and each sees the settled value
    let mut got_refs: BTreeMap<(u64, usize), Vec<(u32, It, Vec<It>)>> = BTreeMap::new();
    for (rid, tick, group, x, seen) in &obs.log.refs {
        let mut seen = seen.clone();
        seen.sort();
        got_refs.entry((*tick, *rid)).or_default().push((*group, *x, seen));
    }
    for ticks in &pred.steps {
        for to in ticks {
            for (rid, want) in to.refs.iter().enumerate() {
                let g = got_refs.remove(&(to.tick, rid)).unwrap_or_default();
                if g.windows(2).any(|w| w[0].0 > w[1].0) {
                    return Some((
                        "reference/group_order".into(),
                        format!("tick {} reference {rid}: closures ran in access-group order {:?}", to.tick, g.iter().map(|e| e.0).collect::<Vec<_>>()),
                    ));
                }
                let mut g2 = g.clone();
                g2.sort();
                let mut w2: Vec<(u32, It, Vec<It>)> = want
                    .iter()
                    .map(|(gr, x, seen)| {
                        let mut s = seen.clone();
                        s.sort();
                        (*gr, *x, s)
                    })
                    .collect();
                w2.sort();
                if g2 != w2 {
                    return Some((
                        "reference/value_seen".into(),
                        format!("tick {} reference {rid}: (group, item, value seen) got {:?}, expected {:?}", to.tick, g, want),
                    ));
                }
            }
        }
    }
    if let Some(((tick, rid), v)) = got_refs.into_iter().next() {
        return Some(("reference/unexpected_tick".into(), format!("reference {rid} was read in tick {tick}, which was not predicted to run: {v:?}")));
    }
    // sinks: group by (tick, sink)
    let mut got: BTreeMap<(u64, usize), Vec<It>> = BTreeMap::new();
    for &(id, tick, x) in &obs.log.sink {
        got.entry((tick, id)).or_default().push(x);
    }
    let mut got_insp: BTreeMap<(u64, usize), Vec<It>> = BTreeMap::new();
    for &(id, tick, x) in &obs.log.inspect {
        got_insp.entry((tick, id)).or_default().push(x);
    }
    for ticks in &pred.steps {
        for to in ticks {
            for (sid, want) in to.sinks.iter().enumerate() {
                let g = got.remove(&(to.tick, sid)).unwrap_or_default();
                match prog.sink_order[sid] {
                    Order::Seq => {
                        if &g != want {
                            let kind = if multiset(&g) == multiset(want) { "order" } else { "items" };
                            return Some((
                                format!("tick_output/{kind}"),
                                format!("tick {} sink {sid} (ordered): got {:?}, expected {:?}", to.tick, g, want),
                            ));
                        }
                    }
                    Order::Bag | Order::KeySorted(_) => {
                        if multiset(&g) != multiset(want) {
                            return Some((
                                "tick_output/items".into(),
                                format!("tick {} sink {sid} (multiset): got {:?}, expected {:?}", to.tick, g, want),
                            ));
                        }
                        if let Order::KeySorted(f) = prog.sink_order[sid] {
                            let proj = |x: &It| if f % 2 == 0 { x.0 as i32 } else { x.1 as i32 };
                            if g.windows(2).any(|w| proj(&w[0]) > proj(&w[1])) {
                                return Some((
                                    "tick_output/order".into(),
                                    format!("tick {} sink {sid} (sorted by {}): got {:?}", to.tick, if f % 2 == 0 { "key" } else { "value" }, g),
                                ));
                            }
                        }
                    }
                }
            }
            for (iid, want) in to.inspects.iter().enumerate() {
                let g = got_insp.remove(&(to.tick, iid)).unwrap_or_default();
                if multiset(&g) != multiset(want) {
                    return Some(("tick_output/inspect".into(), format!("tick {} inspect {iid}: got {:?}, expected {:?}", to.tick, g, want)));
                }
            }
        }
    }
    if let Some(((tick, sid), v)) = got.into_iter().next() {
        return Some(("tick_output/unexpected_tick".into(), format!("sink {sid} received {v:?} in tick {tick}, which was not predicted to run")));
    }
    None
}

// ---------------------------------------------------------------------------------------------
// One run

pub type ExecFn = fn(&Plan, &[usize]) -> Observed;

pub struct Compiled {
    /// scenario name (`p<index>`)
    pub name: String,
    /// (variant name, program); entry 0 is the base program the interpreter runs
    pub progs: Vec<(String, Program)>,
}
impl Compiled {
    pub fn from_json(name: &str, variants: &[(&str, &str)]) -> Compiled {
        Compiled { name: name.to_string(), progs: variants.iter().map(|(n, j)| (n.to_string(), Program::from_json(j).expect("embedded AST"))).collect() }
    }
}

/// One simulated run of one generated program: draw the schedule, predict, execute every compiled
/// variant under the same schedule, compare.
pub fn run_program(sim: &mut Sim, c: &'static Compiled, variants: &[(&'static str, ExecFn)]) -> Outcome {
    let prog = &c.progs[0].1;
    if sim.verbose {
        sim.event(1, || format!("PROGRAM kind={} ops={:?}", prog.kind, prog.op_names()));
        for (name, p) in &c.progs {
            // the replay file carries every variant's AST: `e3_ticksim <ID> --replay` rebuilds from it
            sim.event(2, || format!("VARIANT {name} AST {}", p.to_json()));
            sim.event(3, || format!("DFIR text of variant {name}:\n{}", crate::emit::dfir_text(p)));
        }
    }
    let mut plan = draw_plan(sim, prog.n_chans);
    let pred = predict(prog, &mut plan);
    if pred.too_big {
        return Outcome { violation: None, nontrivial: false, sim_time: 0, discarded: true };
    }
    for p in &pred.probes {
        sim.probe(p);
    }
    let ticks_per_step: Vec<usize> = pred.steps.iter().map(|s| s.len()).collect();
    let total_ticks: usize = ticks_per_step.iter().sum();
    let mut items_out = 0usize;
    for (si, ticks) in pred.steps.iter().enumerate() {
        let st = &plan.steps[si];
        sim.event(0x10 + st.avail as u64, || format!("step {si}: arrivals {:?} drive={}", st.arrivals, if st.avail { "run_available_sync" } else { "run_tick_sync" }));
        for to in ticks {
            let n: usize = to.sinks.iter().map(|v| v.len()).sum();
            items_out += n;
            sim.event(0x20 + n as u64, || format!("  predicted tick {}: sinks {:?} nonlazy_pending={} lazy_pending={}", to.tick, to.sinks, to.nonlazy_pending, to.lazy_pending));
        }
    }
    sim.state(simcore::fnv_str(&format!("{:?}", pred.steps.iter().flatten().map(|t| &t.sinks).collect::<Vec<_>>())));
    // a compiled program that never returns (livelock inside a tick) cannot be interrupted from
    // inside: the watchdog thread reports it from outside (see `watch`)
    let _guard = crate::watch::enter(c, &sim.trace, &plan);
    if let Some(opname) = prog.kind.strip_prefix("pairwise_") {
        // no interpreter verdict (the documentation is silent for some histories): the pull- and
        // push-side realisations of the same program must agree with each other
        let mut first: Option<Observed> = None;
        for (vi, (vname, exec)) in variants.iter().enumerate() {
            let obs = exec(&plan, &ticks_per_step);
            sim.event(0x30 + obs.log.sink.len() as u64, || format!("variant {vi} ({vname}): tick_after={:?} sink log {:?}", obs.tick_after, obs.log.sink));
            if let Some((msg, loc)) = &obs.panic {
                return Outcome::fail(Violation::new(format!("panic/generated_code/{}", prog.kind), format!("variant {vi} ({vname}) panicked at {loc}: {msg}")), total_ticks as u64);
            }
            match &first {
                None => first = Some(obs),
                Some(f) => {
                    let mut a = f.log.sink.clone();
                    let mut b = obs.log.sink.clone();
                    // per (sink, tick) order is compared as logged: sort by (sink, tick) stably
                    a.sort_by_key(|e| (e.0, e.1));
                    b.sort_by_key(|e| (e.0, e.1));
                    if a != b || f.tick_after != obs.tick_after {
                        return Outcome::fail(
                            Violation::new(
                                format!("variants_disagree/{opname}"),
                                format!("variant 0 ({}) and variant {vi} ({vname}) of the same program disagree under the same schedule: (sink, tick, item) {:?} vs {:?}", variants[0].0, a, b),
                            ),
                            total_ticks as u64,
                        );
                    }
                }
            }
        }
        let n = first.map(|f| f.log.sink.len()).unwrap_or(0);
        return Outcome::ok(n > 0 && sim.nonbenign > 0, total_ticks as u64);
    }
    for (vi, (vname, exec)) in variants.iter().enumerate() {
        let obs = exec(&plan, &ticks_per_step);
        sim.event(0x30 + obs.log.sink.len() as u64, || format!("variant {vi} ({vname}): tick_after={:?} sink log {:?} reference log {:?}", obs.tick_after, obs.log.sink, obs.log.refs));
        if let Some((class, detail)) = compare(prog, &plan, &pred, &obs) {
            let class = if vi == 0 { format!("{class}/{}", prog.kind) } else { format!("{class}/{}/variant_{vname}", prog.kind) };
            return Outcome::fail(Violation::new(class, format!("variant {vi} ({vname}): {detail}")), total_ticks as u64);
        }
    }
    let nontrivial = items_out > 0 && sim.nonbenign > 0;
    Outcome::ok(nontrivial, total_ticks as u64)
}

/// C22, "either all compile or all fail to compile": re-run the dfir_lang pipeline on every
/// variant of a program for which the host saw a split.
pub fn run_compile_split(sim: &mut Sim, c: &Compiled) -> Outcome {
    let mut res = vec![];
    for (name, p) in &c.progs {
        let text = crate::emit::dfir_text(p);
        let r = crate::precheck::precheck(&text);
        sim.event(r.is_ok() as u64, || format!("VARIANT {name} AST {}", p.to_json()));
        sim.event(3, || format!("dfir_lang {} variant {name}:\n{text}", if r.is_ok() { "ACCEPTS" } else { "REJECTS" }));
        res.push((name.clone(), r.err()));
    }
    let rejected: Vec<&(String, Option<String>)> = res.iter().filter(|r| r.1.is_some()).collect();
    if !rejected.is_empty() && rejected.len() < res.len() {
        let kind = if res[0].1.is_some() { "base_rejected".to_string() } else { format!("variant_{}_rejected", rejected[0].0) };
        let detail = res.iter().map(|(n, e)| format!("{n}: {}", e.clone().unwrap_or_else(|| "accepted".into()))).collect::<Vec<_>>().join("; ");
        return Outcome::fail(Violation::new(format!("compile_split/{kind}"), detail), 0);
    }
    Outcome::ok(false, 0)
}
