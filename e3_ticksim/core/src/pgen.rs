//! Seeded program generator: typed grammar over the operator catalogue, tracking per stream
//! whether DFIR specifies its order (`Seq`) or not (`Bag`), so that order-sensitive operators are
//! only placed where the order is specified and commutative closures are used on `Bag` inputs.

use simcore::Sim;

use crate::ast::{It, Node, Op, Order, Pers, Program, Src};
use crate::cl;

#[derive(Clone, Copy, Debug)]
struct Open {
    src: Src,
    order: Order,
    /// at most one item per tick
    single: bool,
}

pub struct G<'s> {
    pub sim: &'s mut Sim,
    pub nodes: Vec<Node>,
    open: Vec<Open>,
    n_chans: usize,
    sink_order: Vec<Order>,
    n_inspect: usize,
    ops_left: usize,
}

#[derive(Clone, Debug)]
pub struct GenCfg {
    pub kind: &'static str,
    pub min_ops: usize,
    pub max_ops: usize,
    pub max_chans: usize,
    /// allow defer_tick / defer_tick_lazy
    pub defer: bool,
    /// relative weights: stateless unary, stateful unary, binary, fan-out
    pub w: [u64; 4],
}

impl GenCfg {
    pub fn free() -> GenCfg {
        GenCfg { kind: "free", min_ops: 3, max_ops: 14, max_chans: 3, defer: true, w: [4, 6, 5, 3] }
    }
}

fn pers(sim: &mut Sim) -> Pers {
    if sim.flip("pers", 1, 2) { Pers::Static } else { Pers::Tick }
}

impl<'s> G<'s> {
    pub fn new(sim: &'s mut Sim) -> Self {
        G { sim, nodes: vec![], open: vec![], n_chans: 0, sink_order: vec![], n_inspect: 0, ops_left: 0 }
    }

    fn push(&mut self, op: Op, ins: Vec<Src>) -> usize {
        self.nodes.push(Node { op, ins });
        self.nodes.len() - 1
    }
    fn add_open(&mut self, node: usize, port: usize, order: Order, single: bool) {
        self.open.push(Open { src: Src { node, port }, order, single });
    }
    fn take_open(&mut self) -> Open {
        let i = self.sim.choose("pick_open", 0, self.open.len() as u64 - 1) as usize;
        self.open.remove(i)
    }
    fn f(&mut self, n: u8) -> u8 {
        self.sim.choose("f", 0, n as u64 - 1) as u8
    }
    /// closure index: any if the input order is specified, a commutative one otherwise
    fn f_ord(&mut self, order: Order, n_comm: u8, n: u8) -> u8 {
        match order {
            Order::Seq => self.f(n),
            _ => self.f(n_comm),
        }
    }

    pub fn add_source(&mut self) {
        let c = self.n_chans;
        self.n_chans += 1;
        let n = self.push(Op::Src { chan: c }, vec![]);
        self.add_open(n, 0, Order::Seq, false);
    }
    fn add_src_iter(&mut self) {
        let k = self.sim.choose("iter_len", 0, 4) as usize;
        let mut items: Vec<It> = vec![];
        for _ in 0..k {
            items.push((self.sim.choose("ik", 0, cl::KD as u64 - 1) as u8, self.sim.choose("iv", 0, cl::VD as u64 - 1) as i16));
        }
        let n = self.push(Op::SrcIter { items }, vec![]);
        self.add_open(n, 0, Order::Seq, false);
    }

    /// Make sure at least `k` streams are open (tee an existing one if necessary).
    fn ensure_open(&mut self, k: usize) {
        while self.open.len() < k {
            let o = self.take_open();
            let t = self.push(Op::Tee, vec![o.src]);
            self.add_open(t, 0, o.order, o.single);
            self.add_open(t, 1, o.order, o.single);
        }
    }

    fn unary(&mut self, op: Op, o: Open, order: Order, single: bool) {
        let n = self.push(op, vec![o.src]);
        self.add_open(n, 0, order, single);
    }

    fn step_stateless(&mut self) {
        let o = self.take_open();
        match self.sim.weighted("stateless", &[5, 4, 3, 3, 2, 2, 1]) {
            0 => {
                let f = self.f(cl::N_MAP);
                self.unary(Op::Map { f }, o, o.order.mapped(), o.single)
            }
            1 => {
                let f = self.f(cl::N_FILTER);
                self.unary(Op::Filter { f }, o, o.order, o.single)
            }
            2 => {
                let f = self.f(cl::N_FILTER_MAP);
                self.unary(Op::FilterMap { f }, o, o.order.mapped(), o.single)
            }
            3 => {
                let f = self.f(cl::N_FLAT_MAP);
                self.unary(Op::FlatMap { f }, o, o.order.mapped(), false)
            }
            4 => {
                let f = self.f(cl::N_FLAT_MAP);
                self.unary(Op::Flatten { f }, o, o.order.mapped(), false)
            }
            5 => {
                let id = self.n_inspect;
                self.n_inspect += 1;
                self.unary(Op::Inspect { id }, o, o.order, o.single)
            }
            _ => self.unary(Op::Identity, o, o.order, o.single),
        }
    }

    fn step_stateful(&mut self, cfg: &GenCfg) {
        let o = self.take_open();
        let seq = o.order == Order::Seq;
        // weights; order-sensitive operators get weight 0 on Bag inputs
        let w = [
            3,                              // 0 persist
            4,                              // 1 unique
            3,                              // 2 multiset_delta
            3,                              // 3 sort
            2,                              // 4 sort_by_key
            if seq { 3 } else { 0 },        // 5 enumerate
            4,                              // 6 fold
            4,                              // 7 reduce
            3,                              // 8 fold_keyed
            3,                              // 9 reduce_keyed
            if seq { 2 } else { 0 },        // 10 scan
            2,                              // 11 fold_no_replay
            2,                              // 12 reduce_no_replay
            if cfg.defer { 3 } else { 0 },  // 13 defer_tick
            if cfg.defer { 2 } else { 0 },  // 14 defer_tick_lazy
        ];
        match self.sim.weighted("stateful", &w) {
            0 => self.unary(Op::Persist, o, Order::Bag, false),
            1 => {
                let p = pers(self.sim);
                self.unary(Op::Unique { p }, o, o.order, o.single)
            }
            2 => self.unary(Op::MultisetDelta, o, o.order.mapped(), o.single),
            3 => self.unary(Op::Sort, o, Order::Seq, o.single),
            4 => {
                let f = self.f(2);
                self.unary(Op::SortByKey { f }, o, if o.single { Order::Seq } else { Order::KeySorted(f) }, o.single)
            }
            5 => {
                let p = pers(self.sim);
                self.unary(Op::Enumerate { p }, o, Order::Seq, o.single)
            }
            6 => {
                let p = pers(self.sim);
                let f = self.f_ord(o.order, cl::N_FOLD_COMM, cl::N_FOLD);
                self.unary(Op::Fold { p, f }, o, Order::Seq, true)
            }
            7 => {
                let p = pers(self.sim);
                let f = self.f_ord(o.order, cl::N_REDUCE_COMM, cl::N_REDUCE);
                self.unary(Op::Reduce { p, f }, o, Order::Seq, true)
            }
            8 => {
                let p = pers(self.sim);
                let f = self.f_ord(o.order, cl::N_KEYED_COMM, cl::N_KEYED);
                self.unary(Op::FoldKeyed { p, f }, o, Order::Bag, false)
            }
            9 => {
                let p = pers(self.sim);
                // reduce_keyed seeds the accumulator with the first value, so "count" (f = 2) is
                // order-sensitive for it: only add / max on Bag inputs
                let f = self.f_ord(o.order, cl::N_KEYED_COMM - 1, cl::N_KEYED);
                self.unary(Op::ReduceKeyed { p, f }, o, Order::Bag, false)
            }
            10 => {
                let p = pers(self.sim);
                let f = self.f(cl::N_SCAN);
                self.unary(Op::Scan { p, f }, o, Order::Seq, o.single)
            }
            k @ (11 | 12) => {
                // the documentation is silent about a first tick without input: guarantee input
                // in the first tick by unioning a one-item source_iter in
                let it = (self.sim.choose("ik", 0, cl::KD as u64 - 1) as u8, self.sim.choose("iv", 0, cl::VD as u64 - 1) as i16);
                let s = self.push(Op::SrcIter { items: vec![it] }, vec![]);
                let u = self.push(Op::Union, vec![Src { node: s, port: 0 }, o.src]);
                let p = pers(self.sim);
                let uo = Open { src: Src { node: u, port: 0 }, order: Order::Bag, single: false };
                if k == 11 {
                    let f = self.f(cl::N_FOLD_COMM);
                    self.unary(Op::FoldNoReplay { p, f }, uo, Order::Seq, true)
                } else {
                    let f = self.f(cl::N_REDUCE_COMM);
                    self.unary(Op::ReduceNoReplay { p, f }, uo, Order::Seq, true)
                }
            }
            13 => self.unary(Op::DeferTick, o, Order::Bag, o.single),
            _ => self.unary(Op::DeferTickLazy, o, Order::Bag, o.single),
        }
    }

    fn step_binary(&mut self) {
        self.ensure_open(2);
        let a = self.take_open();
        let b = self.take_open();
        let both_seq = a.order == Order::Seq && b.order == Order::Seq;
        let b_single_ok = b.single || b.order == Order::Seq;
        let w = [
            4,                                 // 0 union
            2,                                 // 1 chain
            if both_seq { 2 } else { 0 },      // 2 chain_first_n
            5,                                 // 3 join
            3,                                 // 4 join_multiset
            3,                                 // 5 cross_join
            2,                                 // 6 cross_join_multiset
            4,                                 // 7 anti_join
            4,                                 // 8 difference
            if both_seq { 3 } else { 0 },      // 9 zip
            if both_seq { 2 } else { 0 },      // 10 zip_longest
            if b_single_ok { 3 } else { 0 },   // 11 cross_singleton
            2,                                 // 12 defer_signal
        ];
        let ins = vec![a.src, b.src];
        let (op, order, single) = match self.sim.weighted("binary", &w) {
            0 => (Op::Union, Order::Bag, false),
            1 => (Op::Chain, if both_seq { Order::Seq } else { Order::Bag }, false),
            2 => {
                let n = self.sim.choose("first_n", 0, 5) as usize;
                (Op::ChainFirstN { n }, Order::Seq, false)
            }
            k @ (3 | 4) => {
                let (pl, pr) = (pers(self.sim), pers(self.sim));
                let f = self.f(cl::N_PAIR);
                (Op::Join { pl, pr, multiset: k == 4, f }, Order::Bag, false)
            }
            k @ (5 | 6) => {
                let (pl, pr) = (pers(self.sim), pers(self.sim));
                let f = self.f(cl::N_PAIR);
                (Op::CrossJoin { pl, pr, multiset: k == 6, f }, Order::Bag, false)
            }
            7 => {
                let (pp, pn) = (pers(self.sim), pers(self.sim));
                (Op::AntiJoin { pp, pn }, if pp == Pers::Tick { a.order.mapped() } else { Order::Bag }, a.single && pp == Pers::Tick)
            }
            8 => {
                let (pp, pn) = (pers(self.sim), pers(self.sim));
                (Op::Difference { pp, pn }, if pp == Pers::Tick { a.order.mapped() } else { Order::Bag }, a.single && pp == Pers::Tick)
            }
            9 => (Op::Zip { f: self.f(cl::N_PAIR) }, Order::Seq, a.single || b.single),
            10 => (Op::ZipLongest { f: self.f(cl::N_PAIR) }, Order::Seq, a.single && b.single),
            11 => (Op::CrossSingleton { f: self.f(cl::N_PAIR) }, a.order.mapped(), a.single),
            _ => (Op::DeferSignal, a.order.mapped(), false),
        };
        let n = self.push(op, ins);
        self.add_open(n, 0, order, single);
    }

    fn step_fanout(&mut self) {
        let o = self.take_open();
        match self.sim.weighted("fanout", &[5, 3, 2, 2]) {
            0 => {
                let k = self.sim.choose("tee_n", 2, 3) as usize;
                let t = self.push(Op::Tee, vec![o.src]);
                for p in 0..k {
                    self.add_open(t, p, o.order, o.single);
                }
            }
            1 => {
                let k = self.sim.choose("part_n", 2, 3) as usize;
                let f = self.f(3);
                let t = self.push(Op::Partition { f, n: k }, vec![o.src]);
                for p in 0..k {
                    self.add_open(t, p, o.order, o.single);
                }
            }
            2 => {
                let f = self.f(3);
                let t = self.push(Op::DemuxEnum { f }, vec![o.src]);
                for p in 0..3 {
                    self.add_open(t, p, o.order, o.single);
                }
            }
            _ => {
                let f = self.f(cl::N_MAP);
                let t = self.push(Op::Unzip { f }, vec![o.src]);
                for p in 0..2 {
                    self.add_open(t, p, o.order.mapped(), o.single);
                }
            }
        }
    }

    /// Close every open stream: at most 3 sinks, the rest is unioned into the last one.
    pub fn close(&mut self) {
        while self.open.len() > 3 {
            let a = self.open.pop().unwrap();
            let b = self.open.pop().unwrap();
            let u = self.push(Op::Union, vec![a.src, b.src]);
            self.add_open(u, 0, Order::Bag, false);
        }
        let open = std::mem::take(&mut self.open);
        for o in open {
            let id = self.sink_order.len();
            self.sink_order.push(o.order);
            self.push(Op::Sink { id }, vec![o.src]);
        }
    }

    pub fn finish(self, kind: &str) -> Program {
        let n = self.nodes.len();
        Program { kind: kind.to_string(), nodes: self.nodes, n_chans: self.n_chans, sink_order: self.sink_order, n_inspect: self.n_inspect, emit_order: (0..n).collect(), loops: vec![], node_loop: vec![], n_refs: 0 }
    }
}

/// A free-form program over the whole catalogue.
pub fn gen_free(sim: &mut Sim, cfg: &GenCfg) -> Program {
    let mut g = G::new(sim);
    let nch = g.sim.choose("n_chans", 1, cfg.max_chans as u64) as usize;
    for _ in 0..nch {
        g.add_source();
    }
    if g.sim.flip("src_iter", 1, 3) {
        g.add_src_iter();
    }
    g.ops_left = g.sim.choose("n_ops", cfg.min_ops as u64, cfg.max_ops as u64) as usize;
    while g.ops_left > 0 {
        g.ops_left -= 1;
        match g.sim.weighted("family", &cfg.w) {
            0 => g.step_stateless(),
            1 => g.step_stateful(cfg),
            2 => g.step_binary(),
            _ => g.step_fanout(),
        }
    }
    g.close();
    g.finish(cfg.kind)
}

// =============================================================================================
// Property-specific templates

impl<'s> G<'s> {
    fn rand_item(&mut self) -> It {
        (self.sim.choose("ik", 0, cl::KD as u64 - 1) as u8, self.sim.choose("iv", 0, cl::VD as u64 - 1) as i16)
    }
    /// A stateless operator that keeps the order tag (and single-ness where possible).
    fn stateless_on(&mut self, o: Open) -> Open {
        self.open.push(o);
        let idx = self.open.len() - 1;
        let o = self.open.remove(idx);
        match self.sim.weighted("stateless2", &[5, 4, 3, 2, 1]) {
            0 => {
                let f = self.f(cl::N_MAP);
                self.node_on(Op::Map { f }, o, o.order.mapped(), o.single)
            }
            1 => {
                let f = self.f(cl::N_FILTER);
                self.node_on(Op::Filter { f }, o, o.order, o.single)
            }
            2 => {
                let f = self.f(cl::N_FILTER_MAP);
                self.node_on(Op::FilterMap { f }, o, o.order.mapped(), o.single)
            }
            3 => {
                let f = self.f(cl::N_FLAT_MAP);
                self.node_on(Op::FlatMap { f }, o, o.order.mapped(), false)
            }
            _ => self.node_on(Op::Identity, o, o.order, o.single),
        }
    }
    fn node_on(&mut self, op: Op, o: Open, order: Order, single: bool) -> Open {
        let n = self.push(op, vec![o.src]);
        Open { src: Src { node: n, port: 0 }, order, single }
    }
    fn node2(&mut self, op: Op, a: Open, b: Open, order: Order, single: bool) -> Open {
        let n = self.push(op, vec![a.src, b.src]);
        Open { src: Src { node: n, port: 0 }, order, single }
    }
    /// Tee a stream: returns two handles to it.
    fn tee2(&mut self, o: Open) -> (Open, Open) {
        let t = self.push(Op::Tee, vec![o.src]);
        (Open { src: Src { node: t, port: 0 }, ..o }, Open { src: Src { node: t, port: 1 }, ..o })
    }
    fn sink(&mut self, o: Open) {
        let id = self.sink_order.len();
        self.sink_order.push(o.order);
        self.push(Op::Sink { id }, vec![o.src]);
    }
    fn new_source(&mut self) -> Open {
        let c = self.n_chans;
        self.n_chans += 1;
        let n = self.push(Op::Src { chan: c }, vec![]);
        Open { src: Src { node: n, port: 0 }, order: Order::Seq, single: false }
    }
    /// A same-tick blocking operator nested inside a feeder pipeline.
    fn nested_blocking(&mut self, o: Open) -> Open {
        match self.sim.weighted("nested_blocking", &[3, 3, 3, 2, 2, 2]) {
            0 => {
                let p = pers(self.sim);
                let f = self.f_ord(o.order, cl::N_FOLD_COMM, cl::N_FOLD);
                self.node_on(Op::Fold { p, f }, o, Order::Seq, true)
            }
            1 => {
                let p = pers(self.sim);
                let f = self.f_ord(o.order, cl::N_REDUCE_COMM, cl::N_REDUCE);
                self.node_on(Op::Reduce { p, f }, o, Order::Seq, true)
            }
            2 => self.node_on(Op::Sort, o, Order::Seq, o.single),
            3 => {
                let p = pers(self.sim);
                self.node_on(Op::Unique { p }, o, o.order, o.single)
            }
            4 => {
                let p = pers(self.sim);
                let f = self.f_ord(o.order, cl::N_KEYED_COMM, cl::N_KEYED);
                self.node_on(Op::FoldKeyed { p, f }, o, Order::Bag, false)
            }
            _ => self.node_on(Op::Persist, o, Order::Bag, false),
        }
    }
}

/// C23: a blocking consumer whose blocking input is produced by a same-tick pipeline of depth
/// 1-6 (maps, filters, unions of several sources, tees, nested blocking operators).
pub fn gen_blocking(sim: &mut Sim) -> Program {
    let mut g = G::new(sim);
    let n_src = g.sim.choose("n_chans", 2, 3) as usize;
    let mut pool: Vec<Open> = (0..n_src).map(|_| g.new_source()).collect();
    // the feeder
    let first = pool.remove(g.sim.choose("feeder_src", 0, pool.len() as u64 - 1) as usize);
    let (mut feeder, keep) = g.tee2(first);
    pool.push(keep);
    let depth = g.sim.choose("depth", 1, 6);
    for _ in 0..depth {
        feeder = match g.sim.weighted("feeder_step", &[5, 3, 2, 3]) {
            0 => g.stateless_on(feeder),
            1 => {
                // union with (a copy of) another stream
                let k = g.sim.choose("union_with", 0, pool.len() as u64 - 1) as usize;
                let other = pool.remove(k);
                let (a, b) = g.tee2(other);
                pool.push(b);
                g.node2(Op::Union, feeder, a, Order::Bag, false)
            }
            2 => {
                // a tee leg goes to the pool, the pipeline continues
                let (a, b) = g.tee2(feeder);
                pool.push(b);
                a
            }
            _ => g.nested_blocking(feeder),
        };
    }
    // the other side, where the consumer has one
    let k = g.sim.choose("other_side", 0, pool.len() as u64 - 1) as usize;
    let other0 = pool.remove(k);
    let (other, other_keep) = g.tee2(other0);
    pool.push(other_keep);
    let other = if g.sim.flip("other_stateless", 1, 2) { g.stateless_on(other) } else { other };
    let both_seq = feeder.order == Order::Seq && other.order == Order::Seq;
    let w = [4, 4, 3, 3, 3, 2, if both_seq { 3 } else { 0 }, 3, 8, 2, 2];
    let out = match g.sim.weighted("consumer", &w) {
        0 => {
            let (pp, pn) = (pers(g.sim), pers(g.sim));
            g.node2(Op::AntiJoin { pp, pn }, other, feeder, if pp == Pers::Tick { other.order } else { Order::Bag }, false)
        }
        1 => {
            let (pp, pn) = (pers(g.sim), pers(g.sim));
            g.node2(Op::Difference { pp, pn }, other, feeder, if pp == Pers::Tick { other.order } else { Order::Bag }, false)
        }
        2 => {
            pool.push(other);
            let p = pers(g.sim);
            let f = g.f_ord(feeder.order, cl::N_FOLD_COMM, cl::N_FOLD);
            g.node_on(Op::Fold { p, f }, feeder, Order::Seq, true)
        }
        3 => {
            pool.push(other);
            let p = pers(g.sim);
            let f = g.f_ord(feeder.order, cl::N_REDUCE_COMM, cl::N_REDUCE);
            g.node_on(Op::Reduce { p, f }, feeder, Order::Seq, true)
        }
        4 => {
            pool.push(other);
            g.node_on(Op::Sort, feeder, Order::Seq, false)
        }
        5 => {
            pool.push(other);
            g.node_on(Op::Persist, feeder, Order::Bag, false)
        }
        6 => {
            let f = g.f(cl::N_PAIR);
            g.node2(Op::Zip { f }, other, feeder, Order::Seq, false)
        }
        7 => {
            // cross_singleton on a folded feeder
            let f0 = g.f_ord(feeder.order, cl::N_FOLD_COMM, cl::N_FOLD);
            let p = pers(g.sim);
            let single = g.node_on(Op::Fold { p, f: f0 }, feeder, Order::Seq, true);
            let f = g.f(cl::N_PAIR);
            g.node2(Op::CrossSingleton { f }, other, single, other.order, false)
        }
        8 => {
            // a `#singleton` reference to the folded feeder
            let f0 = g.f_ord(feeder.order, cl::N_FOLD_COMM, cl::N_FOLD);
            let p = pers(g.sim);
            let h = match g.sim.weighted("ref_kind", &[2, 2, 1]) {
                0 => {
                    let folded = g.node_on(Op::Fold { p, f: f0 }, feeder, Order::Seq, true);
                    g.push(Op::HoffSingleton, vec![folded.src])
                }
                1 => {
                    let fr = g.f_ord(feeder.order, cl::N_REDUCE_COMM, cl::N_REDUCE);
                    let red = g.node_on(Op::Reduce { p, f: fr }, feeder, Order::Seq, true);
                    g.push(Op::HoffOptional, vec![red.src])
                }
                _ => g.push(Op::HoffVec, vec![feeder.src]),
            };
            // the slot may also have a pipe consumer (which must run after the reader)
            if g.sim.flip("ref_pipe_consumer", 1, 2) {
                let ord = if matches!(g.nodes[h].op, Op::HoffVec) { Order::Bag } else { Order::Seq };
                g.sink(Open { src: Src { node: h, port: 0 }, order: ord, single: false });
            }
            // the reader sits in a subgraph of its own (see FINDINGS F1/F3 for the shared-subgraph shapes)
            let iso = g.push(Op::HoffVec, vec![other.src]);
            let other = Open { src: Src { node: iso, port: 0 }, ..other };
            let f = g.f(cl::N_REF);
            let r = g.node_on(Op::RefMap { target: h, group: 0, write: false, f }, other, other.order, false);
            // ... and ends in its own sink
            g.sink(r);
            let k = g.sim.choose("post_src", 0, pool.len() as u64 - 1) as usize;
            pool.remove(k)
        }
        9 => {
            let (pl, pr) = (pers(g.sim), pers(g.sim));
            let f = g.f(cl::N_PAIR);
            let multiset = g.sim.flip("ms", 1, 2);
            g.node2(Op::Join { pl, pr, multiset, f }, other, feeder, Order::Bag, false)
        }
        _ => {
            pool.push(other);
            let p = pers(g.sim);
            let f = g.f_ord(feeder.order, cl::N_KEYED_COMM, cl::N_KEYED);
            g.node_on(Op::FoldKeyed { p, f }, feeder, Order::Bag, false)
        }
    };
    // 0-2 more operators downstream, then sinks
    let mut out = out;
    for _ in 0..g.sim.choose("post", 0, 2) {
        out = g.stateless_on(out);
    }
    g.open = pool;
    g.open.push(out);
    g.close();
    g.finish("blocking")
}

/// C24: chains of `defer_tick()` / `defer_tick_lazy()` mixed with stateful operators, optionally
/// with a decaying feedback cycle through a deferred edge.
pub fn gen_defer(sim: &mut Sim) -> Program {
    let mut g = G::new(sim);
    let n_src = g.sim.choose("n_chans", 1, 2) as usize;
    let mut pool: Vec<Open> = (0..n_src).map(|_| g.new_source()).collect();
    let mut cur = pool.remove(0);
    // optional feedback cycle: cur = union(cur, fb) ... fb = decay(cur') -> defer
    let feedback = g.sim.flip("feedback", 2, 5);
    let mut fb_union = None;
    if feedback {
        let u = g.push(Op::Union, vec![cur.src, Src { node: usize::MAX, port: 0 }]);
        fb_union = Some(u);
        cur = Open { src: Src { node: u, port: 0 }, order: Order::Bag, single: false };
    }
    let n_defer = g.sim.choose("n_defer", 1, 4);
    let mix = g.sim.flip("mix_lazy", 1, 2);
    let lazy_first = g.sim.flip("lazy_first", 1, 2);
    let mut placed = 0;
    let steps = n_defer + g.sim.choose("extra_steps", 0, 4);
    for s in 0..steps {
        let must_defer = steps - s <= n_defer - placed;
        let w: [u64; 5] = if must_defer { [0, 0, 1, 0, 0] } else { [3, 3, if placed < n_defer { 4 } else { 0 }, 2, 2] };
        cur = match g.sim.weighted("defer_step", &w) {
            0 => g.stateless_on(cur),
            1 => {
                // stateful operator with a random lifetime; replaying operators only outside a cycle
                let seq = cur.order == Order::Seq;
                let w2 = [3, 3, if seq { 2 } else { 0 }, if feedback { 0 } else { 2 }, 2, if feedback { 0 } else { 1 }];
                match g.sim.weighted("defer_stateful", &w2) {
                    0 => {
                        let p = pers(g.sim);
                        g.node_on(Op::Unique { p }, cur, cur.order, cur.single)
                    }
                    1 => {
                        let p = if feedback { Pers::Tick } else { pers(g.sim) };
                        let f = g.f_ord(cur.order, cl::N_REDUCE_COMM, cl::N_REDUCE);
                        g.node_on(Op::Reduce { p, f }, cur, Order::Seq, true)
                    }
                    2 => {
                        let p = pers(g.sim);
                        g.node_on(Op::Enumerate { p }, cur, Order::Seq, cur.single)
                    }
                    3 => {
                        let p = pers(g.sim);
                        let f = g.f_ord(cur.order, cl::N_FOLD_COMM, cl::N_FOLD);
                        g.node_on(Op::Fold { p, f }, cur, Order::Seq, true)
                    }
                    4 => g.node_on(Op::MultisetDelta, cur, cur.order, cur.single),
                    _ => g.node_on(Op::Persist, cur, Order::Bag, false),
                }
            }
            2 => {
                placed += 1;
                // with >= 2 defers, half of the programs alternate lazy / non-lazy (either order first)
                let lazy = if mix && n_defer >= 2 { (placed % 2 == 1) == lazy_first } else { g.sim.flip("lazy", 1, 3) };
                if lazy { g.node_on(Op::DeferTickLazy, cur, Order::Bag, cur.single) } else { g.node_on(Op::DeferTick, cur, Order::Bag, cur.single) }
            }
            3 => {
                // observe the stream at this point
                let (a, b) = g.tee2(cur);
                g.sink(b);
                a
            }
            _ => {
                if pool.is_empty() {
                    g.stateless_on(cur)
                } else {
                    let other = pool.remove(0);
                    g.node2(Op::Union, cur, other, Order::Bag, false)
                }
            }
        };
    }
    if let Some(u) = fb_union {
        let (a, b) = g.tee2(cur);
        let d = g.node_on(Op::Decay, b, b.order, b.single);
        let d = if g.sim.flip("fb_map", 1, 2) { g.node_on(Op::Map { f: 1 }, d, d.order, d.single) } else { d };
        // the cycle must contain a deferred edge; if the chain above already has one, this edge may be direct
        let back = if g.sim.flip("fb_lazy", 1, 4) { g.node_on(Op::DeferTickLazy, d, Order::Bag, false) } else { g.node_on(Op::DeferTick, d, Order::Bag, false) };
        g.nodes[u].ins[1] = back.src;
        cur = a;
    }
    g.open = pool;
    g.open.push(cur);
    g.close();
    g.finish("defer")
}

/// C25: shared state held by a handoff (`fold -> singleton()`, `reduce -> optional()`,
/// `handoff()`), read and updated through `#{group} [mut] name` references from 2-4 access groups.
///
/// Shape restrictions (all are rustc borrow-check limits of the generated code, not semantics):
/// two reference holders of the same state may only share a subgraph if both only read, so every
/// holder is fed through its own `handoff()` and ends in its own sink, except readers of one group.
/// `shared_consumer`: the state's pipe consumer and a reference holder are merged by a `union`
/// (they then share a subgraph) — kept as a separate program kind.
pub fn gen_refs(sim: &mut Sim, shared_consumer: bool) -> Program {
    let mut g = G::new(sim);
    let n_src = g.sim.choose("n_chans", 2, 3) as usize;
    let srcs: Vec<Open> = (0..n_src).map(|_| g.new_source()).collect();
    // every source is teed so that any number of consumers can read it
    let mut taps: Vec<Open> = srcs;
    let mut tap = |g: &mut G, k: usize| -> Open {
        let o = taps.remove(k);
        let (a, b) = g.tee2(o);
        taps.insert(k, b);
        a
    };
    let n_states = if shared_consumer { 1 } else { g.sim.choose("n_states", 1, 2) as usize };
    for _ in 0..n_states {
        // the producer of the state: a same-tick pipeline of depth 0-3
        let k = g.sim.choose("state_src", 0, n_src as u64 - 1) as usize;
        let mut feeder = tap(&mut g, k);
        for _ in 0..g.sim.choose("state_depth", 0, 3) {
            feeder = if g.sim.flip("state_union", 1, 4) {
                let k2 = g.sim.choose("state_src2", 0, n_src as u64 - 1) as usize;
                let o = tap(&mut g, k2);
                g.node2(Op::Union, feeder, o, Order::Bag, false)
            } else {
                g.stateless_on(feeder)
            };
        }
        // shared_consumer: optional() only — with handoff() rustc rejects the shape (the consumer's
        // `drain(..)` is a live mutable borrow), with singleton() the reader panics on unwrap
        let kind_w: [u64; 3] = if shared_consumer { [0, 1, 0] } else { [4, 3, 2] };
        let hoff = match g.sim.weighted("state_kind", &kind_w) {
            0 => {
                let p = pers(g.sim);
                let f = g.f_ord(feeder.order, cl::N_FOLD_COMM, cl::N_FOLD);
                let fo = g.node_on(Op::Fold { p, f }, feeder, Order::Seq, true);
                g.push(Op::HoffSingleton, vec![fo.src])
            }
            1 => {
                let p = pers(g.sim);
                let f = g.f_ord(feeder.order, cl::N_REDUCE_COMM, cl::N_REDUCE);
                let fo = g.node_on(Op::Reduce { p, f }, feeder, Order::Seq, true);
                g.push(Op::HoffOptional, vec![fo.src])
            }
            _ => g.push(Op::HoffVec, vec![feeder.src]),
        };
        let hoff_order = match g.nodes[hoff].op {
            Op::HoffVec => Order::Bag,
            _ => Order::Seq,
        };
        // access groups; 1 state in 4 is only read, through plain `#name` references (no group)
        let plain = !shared_consumer && g.sim.flip("plain_refs", 1, 4);
        let n_groups = if plain { 1 } else { g.sim.choose("n_groups", 2, 4) as u32 };
        let mut holder_outs: Vec<Open> = vec![];
        for grp in 0..n_groups {
            let writer = !plain && g.sim.flip("writer", 2, 5);
            let grp = if plain { u32::MAX } else { grp };
            let k = g.sim.choose("ref_src", 0, n_src as u64 - 1) as usize;
            let mut inp = tap(&mut g, k);
            for _ in 0..g.sim.choose("ref_pre", 0, 2) {
                inp = g.stateless_on(inp);
            }
            // own subgraph for the holder(s) of this group
            let iso = g.push(Op::HoffVec, vec![inp.src]);
            let inp = Open { src: Src { node: iso, port: 0 }, order: inp.order, single: false };
            if writer {
                // a writer's input order is specified (Seq): the values it sees are then determined
                let f = g.f(cl::N_REF);
                let o = g.node_on(Op::RefMap { target: hoff, group: grp, write: true, f }, inp, inp.order, false);
                holder_outs.push(o);
            } else if g.sim.flip("two_readers", 1, 3) {
                // two readers of one group share a subgraph (both borrows are shared)
                let (a, b) = g.tee2(inp);
                for x in [a, b] {
                    let f = g.f(cl::N_REF);
                    let o = g.node_on(Op::RefMap { target: hoff, group: grp, write: false, f }, x, x.order, false);
                    holder_outs.push(o);
                }
            } else {
                let f = g.f(cl::N_REF);
                let o = g.node_on(Op::RefMap { target: hoff, group: grp, write: false, f }, inp, inp.order, false);
                holder_outs.push(o);
            }
        }
        let state_out = Open { src: Src { node: hoff, port: 0 }, order: hoff_order, single: false };
        if shared_consumer {
            // the pipe consumer of the state is a union that also takes a holder's output
            let k = g.sim.choose("shared_with", 0, holder_outs.len() as u64 - 1) as usize;
            let h = holder_outs.remove(k);
            let u = g.node2(Op::Union, state_out, h, Order::Bag, false);
            g.sink(u);
        } else {
            // the slot's pipe consumer: none, a plain consumer, or a deferred one (the holders of
            // this tick still see this tick's value; the deferred consumer gets it next tick)
            // (deferred consumers only for `handoff()`: `singleton()/optional() -> defer_tick()` is
            // accepted by dfir_lang but rejected by rustc — the deferred buffer is declared as a Vec
            // while the send side uses Option methods; compile-time territory, see FINDINGS N3)
            let vec_slot = matches!(g.nodes[hoff].op, Op::HoffVec);
            let w: [u64; 4] = if vec_slot { [1, 2, 3, 3] } else { [2, 3, 0, 0] };
            match g.sim.weighted("state_consumer", &w) {
                0 => {}
                1 => g.sink(state_out),
                k => {
                    let d = g.node_on(if k == 2 { Op::DeferTick } else { Op::DeferTickLazy }, state_out, Order::Bag, false);
                    g.sink(d);
                }
            }
        }
        for o in holder_outs {
            g.sink(o);
        }
    }
    // what is left of the sources
    g.open = taps;
    g.close();
    let mut p = g.finish(if shared_consumer { "refs_shared_consumer" } else { "refs" });
    p.n_refs = p.ref_ids().len();
    p
}

// ---- C26: loop templates -----------------------------------------------------------------------

struct LoopB<'a, 's> {
    g: &'a mut G<'s>,
    loops: Vec<Option<usize>>,
    node_loop: Vec<Option<usize>>,
}
impl LoopB<'_, '_> {
    fn mark(&mut self, l: Option<usize>) {
        while self.node_loop.len() < self.g.nodes.len() {
            self.node_loop.push(l);
        }
    }
    fn new_loop(&mut self, parent: Option<usize>) -> usize {
        self.loops.push(parent);
        self.loops.len() - 1
    }
    fn stateless_chain(&mut self, mut o: Open, max: u64, l: Option<usize>) -> Open {
        for _ in 0..self.g.sim.choose("loop_stateless", 0, max) {
            o = self.g.stateless_on(o);
        }
        self.mark(l);
        o
    }
    /// `union(entries.., fb) -> tee -> {observe, decay -> [map] -> defer -> fb}` inside loop `l`;
    /// returns the handle that is observed.
    fn feedback_body(&mut self, entries: Vec<Open>, l: usize) -> Open {
        let mut ins: Vec<Src> = entries.iter().map(|e| e.src).collect();
        ins.push(Src { node: usize::MAX, port: 0 });
        let fb_port = ins.len() - 1;
        let u = self.g.push(Op::Union, ins);
        let merged = Open { src: Src { node: u, port: 0 }, order: Order::Bag, single: false };
        let merged = self.stateless_chain(merged, 1, Some(l));
        let (a, b) = self.g.tee2(merged);
        let d = self.g.node_on(Op::Decay, b, Order::Bag, false);
        let d = if self.g.sim.flip("loop_fb_map", 1, 2) {
            let f = self.g.sim.choose("loop_fb_f", 0, 1) as u8; // maps that keep the value decreasing
            self.g.node_on(Op::Map { f: if f == 0 { 1 } else { 5 } }, d, Order::Bag, false)
        } else {
            d
        };
        let lazy = self.g.sim.flip("loop_fb_lazy", 1, 4);
        let back = self.g.node_on(if lazy { Op::DeferTickLazy } else { Op::DeferTick }, d, Order::Bag, false);
        self.g.nodes[u].ins[fb_port] = back.src;
        // further feedback cycles of a different length through the same loop: a two-hop
        // defer_tick -> defer_tick cycle, and a defer_tick_lazy cycle next to the non-lazy ones
        let mut a = a;
        if self.g.sim.flip("loop_fb_second", 1, 2) {
            let (a2, b2) = self.g.tee2(a);
            a = a2;
            let d2 = self.g.node_on(Op::Decay, b2, Order::Bag, false);
            let d2 = self.g.node_on(Op::Decay, d2, Order::Bag, false);
            let h1 = self.g.node_on(Op::DeferTick, d2, Order::Bag, false);
            let h1 = self.g.node_on(Op::Identity, h1, Order::Bag, false);
            let h2 = self.g.node_on(Op::DeferTick, h1, Order::Bag, false);
            self.g.nodes[u].ins.push(h2.src);
        }
        if !lazy && self.g.sim.flip("loop_fb_lazy_extra", 1, 2) {
            let (a3, b3) = self.g.tee2(a);
            a = a3;
            let d3 = self.g.node_on(Op::Decay, b3, Order::Bag, false);
            let d3 = self.g.node_on(Op::Filter { f: 0 }, d3, Order::Bag, false);
            let h3 = self.g.node_on(Op::DeferTickLazy, d3, Order::Bag, false);
            self.g.nodes[u].ins.push(h3.src);
        }
        self.mark(Some(l));
        a
    }
}

/// C26: parametrised loop templates.
pub fn gen_loops(sim: &mut Sim) -> Program {
    let mut g = G::new(sim);
    let template = g.sim.weighted("loop_template", &[3, 2, 3, 3, 5, 3]);
    let n_src = match template {
        1 | 2 | 5 => 2,
        _ => g.sim.choose("n_chans", 1, 2) as usize,
    };
    let srcs: Vec<Open> = (0..n_src).map(|_| g.new_source()).collect();
    let mut b = LoopB { g: &mut g, loops: vec![], node_loop: vec![] };
    b.mark(None);
    // optional top-level preprocessing of the inputs
    let mut ins: Vec<Open> = vec![];
    for s in srcs {
        let o = b.stateless_chain(s, 1, None);
        ins.push(o);
    }
    let mut top_outs: Vec<Open> = vec![];
    match template {
        // A: root-level loop gating on batch()
        0 => {
            let l = b.new_loop(None);
            let mut entries = vec![];
            for i in ins.drain(..) {
                let e = b.g.node_on(Op::Batch, i, Order::Bag, false);
                entries.push(e);
            }
            b.mark(Some(l));
            let cur = if entries.len() > 1 {
                let srcs: Vec<Src> = entries.iter().map(|e| e.src).collect();
                let u = b.g.push(Op::Union, srcs);
                Open { src: Src { node: u, port: 0 }, order: Order::Bag, single: false }
            } else {
                entries[0]
            };
            let cur = b.stateless_chain(cur, 3, Some(l));
            if b.g.sim.flip("exit_via_all_iterations", 1, 2) {
                b.mark(Some(l));
                let ai = b.g.node_on(Op::AllIterations, cur, Order::Bag, false);
                b.mark(None);
                let ai = b.stateless_chain(ai, 2, None);
                top_outs.push(ai);
            } else {
                b.g.sink(cur);
                b.mark(Some(l));
            }
        }
        // B: two independent root-level loops
        1 => {
            for i in ins.drain(..) {
                let l = b.new_loop(None);
                let e = b.g.node_on(Op::Batch, i, Order::Bag, false);
                let cur = b.stateless_chain(e, 2, Some(l));
                b.g.sink(cur);
                b.mark(Some(l));
            }
        }
        // C: root-level loop with batch() and batch_lazy() entries
        2 => {
            let l = b.new_loop(None);
            let e0 = b.g.node_on(Op::Batch, ins[0], Order::Bag, false);
            let e1 = b.g.node_on(Op::BatchLazy, ins[1], Order::Bag, false);
            ins.clear();
            let u = b.g.push(Op::Union, vec![e0.src, e1.src]);
            let cur = Open { src: Src { node: u, port: 0 }, order: Order::Bag, single: false };
            let cur = b.stateless_chain(cur, 2, Some(l));
            b.g.sink(cur);
            b.mark(Some(l));
        }
        // D: root-level loop with a deferred feedback edge (next tick)
        3 => {
            let l = b.new_loop(None);
            let mut entries = vec![];
            for i in ins.drain(..) {
                let e = b.g.node_on(Op::Batch, i, Order::Bag, false);
                entries.push(e);
            }
            b.mark(Some(l));
            let seen = b.feedback_body(entries, l);
            b.g.sink(seen);
            b.mark(Some(l));
        }
        // E: nested loop with defer_tick feedback (the documented 1 -> 10 -> 100 pattern, generalised)
        4 => {
            let root = b.new_loop(None);
            let mut root_data = vec![];
            for i in ins.drain(..) {
                let e = b.g.node_on(Op::Batch, i, Order::Bag, false);
                let e = b.stateless_chain(e, 1, Some(root));
                let e = b.g.node_on(Op::Identity, e, Order::Bag, false);
                root_data.push(e);
            }
            b.mark(Some(root));
            let inner = b.new_loop(Some(root));
            let mut entries = vec![];
            for (k, rd) in root_data.into_iter().enumerate() {
                let lazy = k > 0 && b.g.sim.flip("nested_entry_lazy", 1, 2);
                let e = b.g.node_on(if lazy { Op::BatchLazy } else { Op::Batch }, rd, Order::Bag, false);
                entries.push(e);
            }
            b.mark(Some(inner));
            let seen = b.feedback_body(entries, inner);
            match b.g.sim.weighted("nested_exit", &[2, 2, 1]) {
                0 => {
                    b.g.sink(seen);
                    b.mark(Some(inner));
                }
                1 => {
                    let ai = b.g.node_on(Op::AllIterations, seen, Order::Bag, false);
                    b.mark(Some(root));
                    let ai = b.stateless_chain(ai, 1, Some(root));
                    b.g.sink(ai);
                    b.mark(Some(root));
                }
                _ => {
                    // out of both loops
                    let (x, y) = b.g.tee2(seen);
                    b.g.sink(x);
                    b.mark(Some(inner));
                    let ai = b.g.node_on(Op::AllIterations, y, Order::Bag, false);
                    b.mark(Some(root));
                    let ai2 = b.g.node_on(Op::AllIterations, ai, Order::Bag, false);
                    b.mark(None);
                    top_outs.push(ai2);
                }
            }
        }
        // F: lazy entries of a nested loop must not carry stale data across iterations or ticks
        _ => {
            let root = b.new_loop(None);
            let trig = b.g.node_on(Op::Batch, ins[0], Order::Bag, false);
            let trig = b.g.node_on(Op::Identity, trig, Order::Bag, false);
            let lazy = b.g.node_on(Op::BatchLazy, ins[1], Order::Bag, false);
            let lazy = b.g.node_on(Op::Identity, lazy, Order::Bag, false);
            ins.clear();
            b.mark(Some(root));
            let mid = b.new_loop(Some(root));
            let e = b.g.node_on(Op::Batch, trig, Order::Bag, false);
            let lz = b.g.node_on(Op::BatchLazy, lazy, Order::Bag, false);
            let lz = b.g.node_on(Op::Identity, lz, Order::Bag, false);
            b.mark(Some(mid));
            let merged = b.feedback_body(vec![e], mid);
            let innermost = b.new_loop(Some(mid));
            let i0 = b.g.node_on(Op::Batch, merged, Order::Bag, false);
            let i1 = b.g.node_on(Op::BatchLazy, lz, Order::Bag, false);
            let u = b.g.push(Op::Union, vec![i0.src, i1.src]);
            let cur = Open { src: Src { node: u, port: 0 }, order: Order::Bag, single: false };
            b.mark(Some(innermost));
            let a1 = b.g.node_on(Op::AllIterations, cur, Order::Bag, false);
            b.mark(Some(mid));
            let a2 = b.g.node_on(Op::AllIterations, a1, Order::Bag, false);
            b.mark(Some(root));
            b.g.sink(a2);
            b.mark(Some(root));
        }
    }
    b.mark(None);
    for o in ins.drain(..) {
        top_outs.push(o);
    }
    for o in top_outs {
        b.g.sink(o);
    }
    b.mark(None);
    let (loops, node_loop) = (b.loops, b.node_loop);
    let mut p = g.finish("loops");
    p.loops = loops;
    p.node_loop = node_loop;
    p
}

// ---- C22: rustc-level compile-agreement families ----------------------------------------------

/// Variant families for the rustc leg of C22: one operator realised pull-side, push-side (behind a
/// 2-output tee whose other leg goes to `null()`), pull-side behind a union with an empty `null()`
/// input, and push-side behind an extra identity. All variants of a family compute the same sink.
pub fn rustc_families(sim: &mut Sim) -> Vec<(String, Vec<(String, Program)>)> {
    let mut fams = vec![];
    let p = pers(sim);
    let p2 = pers(sim);
    let ops: Vec<(&str, Op)> = vec![
        ("multiset_delta", Op::MultisetDelta),
        ("unique", Op::Unique { p }),
        ("sort_by_key", Op::SortByKey { f: sim.choose("f", 0, 1) as u8 }),
        ("fold_keyed", Op::FoldKeyed { p: p2, f: sim.choose("f", 0, cl::N_KEYED as u64 - 1) as u8 }),
        ("persist", Op::Persist),
        ("enumerate", Op::Enumerate { p }),
    ];
    let mk = |nodes: Vec<Node>, n_chans: usize, sinks: usize, kind: &str| -> Program {
        let n = nodes.len();
        Program { kind: kind.to_string(), nodes, n_chans, sink_order: vec![Order::Bag; sinks], n_inspect: 0, emit_order: (0..n).collect(), loops: vec![], node_loop: vec![], n_refs: 0 }
    };
    let s = |node: usize, port: usize| Src { node, port };
    for (name, op) in ops {
        let kind = format!("rustc_{name}");
        let pull = mk(vec![Node { op: Op::Src { chan: 0 }, ins: vec![] }, Node { op: op.clone(), ins: vec![s(0, 0)] }, Node { op: Op::Sink { id: 0 }, ins: vec![s(1, 0)] }], 1, 1, &kind);
        let push_tee = mk(
            vec![
                Node { op: Op::Src { chan: 0 }, ins: vec![] },
                Node { op: Op::Tee, ins: vec![s(0, 0)] },
                Node { op: op.clone(), ins: vec![s(1, 0)] },
                Node { op: Op::Sink { id: 0 }, ins: vec![s(2, 0)] },
                Node { op: Op::Null, ins: vec![s(1, 1)] },
            ],
            1,
            1,
            &kind,
        );
        let pull_union = mk(
            vec![
                Node { op: Op::Src { chan: 0 }, ins: vec![] },
                Node { op: Op::NullSrc, ins: vec![] },
                Node { op: Op::Union, ins: vec![s(0, 0), s(1, 0)] },
                Node { op: op.clone(), ins: vec![s(2, 0)] },
                Node { op: Op::Sink { id: 0 }, ins: vec![s(3, 0)] },
            ],
            1,
            1,
            &kind,
        );
        let push_identity = mk(
            vec![
                Node { op: Op::Src { chan: 0 }, ins: vec![] },
                Node { op: Op::Tee, ins: vec![s(0, 0)] },
                Node { op: Op::Identity, ins: vec![s(1, 0)] },
                Node { op: op.clone(), ins: vec![s(2, 0)] },
                Node { op: Op::Sink { id: 0 }, ins: vec![s(3, 0)] },
                Node { op: Op::Null, ins: vec![s(1, 1)] },
            ],
            1,
            1,
            &kind,
        );
        fams.push((name.to_string(), vec![("pull".to_string(), pull), ("push_tee".to_string(), push_tee), ("pull_union".to_string(), pull_union), ("push_identity".to_string(), push_identity)]));
    }
    // a `#name` reader of a `handoff()` buffer whose output is merged with the buffer's pipe consumer
    // by a union (the reader then shares the consumer's subgraph, where the buffer's `drain(..)` is a
    // live mutable borrow) vs. the same program with a handoff() between reader and union
    let f = sim.choose("f", 0, cl::N_REF as u64 - 1) as u8;
    let refs = |iso: bool| -> Program {
        let mut nodes = vec![
            Node { op: Op::Src { chan: 0 }, ins: vec![] },
            Node { op: Op::HoffVec, ins: vec![s(0, 0)] },
            Node { op: Op::Src { chan: 1 }, ins: vec![] },
            Node { op: Op::HoffVec, ins: vec![s(2, 0)] },
            Node { op: Op::RefMap { target: 1, group: 0, write: false, f }, ins: vec![s(3, 0)] },
        ];
        let mut r = 4;
        if iso {
            nodes.push(Node { op: Op::HoffVec, ins: vec![s(r, 0)] });
            r = nodes.len() - 1;
        }
        nodes.push(Node { op: Op::Union, ins: vec![s(1, 0), s(r, 0)] });
        let u = nodes.len() - 1;
        nodes.push(Node { op: Op::Sink { id: 0 }, ins: vec![s(u, 0)] });
        let mut p = mk(nodes, 2, 1, "rustc_ref_holder_with_vec_consumer");
        p.n_refs = 1;
        p
    };
    fams.push(("ref_holder_with_vec_consumer".to_string(), vec![("separate_subgraphs".to_string(), refs(true)), ("one_subgraph".to_string(), refs(false))]));
    fams
}

/// C22: `reduce_no_replay` / `fold_no_replay` *without* a guaranteed first-tick input, realised
/// pull-side and push-side. The documentation is silent about some histories (first tick without
/// input), so these programs are not judged by the interpreter: the variants are compared with each
/// other only (`drive::run_program`, kinds starting with `pairwise_`).
pub fn gen_no_replay_pair(sim: &mut Sim, reduce: bool) -> Vec<(String, Program)> {
    let p = pers(sim);
    let op = if reduce { Op::ReduceNoReplay { p, f: sim.choose("f", 0, cl::N_REDUCE as u64 - 1) as u8 } } else { Op::FoldNoReplay { p, f: sim.choose("f", 0, cl::N_FOLD as u64 - 1) as u8 } };
    let kind = if reduce { "pairwise_reduce_no_replay" } else { "pairwise_fold_no_replay" };
    let pre: Vec<Op> = (0..sim.choose("pre", 0, 2))
        .map(|_| if sim.flip("pre_filter", 1, 2) { Op::Filter { f: sim.choose("f", 0, cl::N_FILTER as u64 - 1) as u8 } } else { Op::Map { f: sim.choose("f", 0, cl::N_MAP as u64 - 1) as u8 } })
        .collect();
    let build = |shape: usize| -> Program {
        let s = |node: usize, port: usize| Src { node, port };
        let mut nodes = vec![Node { op: Op::Src { chan: 0 }, ins: vec![] }];
        for o in &pre {
            let l = nodes.len() - 1;
            nodes.push(Node { op: o.clone(), ins: vec![s(l, 0)] });
        }
        let mut from = s(nodes.len() - 1, 0);
        let mut extra_null = None;
        match shape {
            // push-side: behind a 2-output tee (other leg to null()), optionally + identity
            1 | 3 => {
                nodes.push(Node { op: Op::Tee, ins: vec![from] });
                let t = nodes.len() - 1;
                extra_null = Some(s(t, 1));
                from = s(t, 0);
                if shape == 3 {
                    nodes.push(Node { op: Op::Identity, ins: vec![from] });
                    from = s(nodes.len() - 1, 0);
                }
            }
            // pull-side behind a union with an empty input
            2 => {
                nodes.push(Node { op: Op::NullSrc, ins: vec![] });
                let ns = nodes.len() - 1;
                nodes.push(Node { op: Op::Union, ins: vec![from, s(ns, 0)] });
                from = s(nodes.len() - 1, 0);
            }
            _ => {}
        }
        nodes.push(Node { op: op.clone(), ins: vec![from] });
        let x = nodes.len() - 1;
        nodes.push(Node { op: Op::Sink { id: 0 }, ins: vec![s(x, 0)] });
        if let Some(n) = extra_null {
            nodes.push(Node { op: Op::Null, ins: vec![n] });
        }
        let n = nodes.len();
        Program { kind: kind.to_string(), nodes, n_chans: 1, sink_order: vec![Order::Seq], n_inspect: 0, emit_order: (0..n).collect(), loops: vec![], node_loop: vec![], n_refs: 0 }
    };
    vec![("pull".to_string(), build(0)), ("push_tee".to_string(), build(1)), ("pull_union".to_string(), build(2)), ("push_identity".to_string(), build(3))]
}

/// Every stateful unary operator x persistence of the catalogue.
pub fn stateful_catalogue(sim: &mut Sim) -> Vec<Op> {
    use Pers::{Static, Tick};
    let mut v = vec![Op::Persist, Op::MultisetDelta, Op::Sort];
    for p in [Tick, Static] {
        v.push(Op::Unique { p });
        v.push(Op::Enumerate { p });
        v.push(Op::Fold { p, f: sim.choose("f", 0, cl::N_FOLD as u64 - 1) as u8 });
        v.push(Op::Reduce { p, f: sim.choose("f", 0, cl::N_REDUCE as u64 - 1) as u8 });
        v.push(Op::FoldKeyed { p, f: sim.choose("f", 0, cl::N_KEYED as u64 - 1) as u8 });
        v.push(Op::ReduceKeyed { p, f: sim.choose("f", 0, cl::N_KEYED as u64 - 1) as u8 });
        v.push(Op::Scan { p, f: sim.choose("f", 0, cl::N_SCAN as u64 - 1) as u8 });
    }
    v.push(Op::SortByKey { f: 0 });
    v.push(Op::SortByKey { f: 1 });
    v
}

/// Systematic coverage: program `k` of the slice realises `n_ops` consecutive catalogue operators,
/// each one twice on the same input: push-side (directly behind a 2-output tee) and pull-side
/// (behind an explicit handoff()), each with its own sink. Over the slice every stateful operator x
/// persistence runs on both sides over multi-tick histories.
pub fn gen_both_sides(sim: &mut Sim, k: usize, n_ops: usize) -> Program {
    let cat = stateful_catalogue(sim);
    let mut g = G::new(sim);
    for j in 0..n_ops {
        let op = cat[(k * n_ops + j) % cat.len()].clone();
        let src = g.new_source();
        let src = if g.sim.flip("pre", 1, 2) { g.stateless_on(src) } else { src };
        let t = g.push(Op::Tee, vec![src.src]);
        let out_order = |o: &Op| match o {
            Op::Persist | Op::FoldKeyed { .. } | Op::ReduceKeyed { .. } => Order::Bag,
            Op::SortByKey { f } => Order::KeySorted(*f),
            Op::Sort => Order::Seq,
            _ => src.order,
        };
        // push side
        let x = g.push(op.clone(), vec![Src { node: t, port: 0 }]);
        g.sink(Open { src: Src { node: x, port: 0 }, order: out_order(&op), single: false });
        // pull side
        let h = g.push(Op::HoffVec, vec![Src { node: t, port: 1 }]);
        let y = g.push(op.clone(), vec![Src { node: h, port: 0 }]);
        g.sink(Open { src: Src { node: y, port: 0 }, order: out_order(&op), single: false });
    }
    g.finish("both_sides")
}
