//! Seeded program generator: typed grammar over the operator catalogue, tracking per stream
//! whether DFIR specifies its order (`Seq`) or not (`Bag`), so that order-sensitive operators are
//! only placed where the order is specified and commutative closures are used on `Bag` inputs.

use simcore::Sim;

use crate::ast::{It, Node, Op, Order, Pers, Program, Src};
use crate::cl;

#[derive(Clone, Copy, Debug)]
struct Open {
    src: Src,
    order: Order,
    /// at most one item per tick
    single: bool,
}

pub struct G<'s> {
    pub sim: &'s mut Sim,
    pub nodes: Vec<Node>,
    open: Vec<Open>,
    n_chans: usize,
    sink_order: Vec<Order>,
    n_inspect: usize,
    ops_left: usize,
}

#[derive(Clone, Debug)]
pub struct GenCfg {
    pub kind: &'static str,
    pub min_ops: usize,
    pub max_ops: usize,
    pub max_chans: usize,
    /// allow defer_tick / defer_tick_lazy
    pub defer: bool,
    /// relative weights: stateless unary, stateful unary, binary, fan-out
    pub w: [u64; 4],
}

impl GenCfg {
    pub fn free() -> GenCfg {
        GenCfg { kind: "free", min_ops: 3, max_ops: 14, max_chans: 3, defer: true, w: [4, 6, 5, 3] }
    }
}

fn pers(sim: &mut Sim) -> Pers {
    if sim.flip("pers", 1, 2) { Pers::Static } else { Pers::Tick }
}

impl<'s> G<'s> {
    pub fn new(sim: &'s mut Sim) -> Self {
        G { sim, nodes: vec![], open: vec![], n_chans: 0, sink_order: vec![], n_inspect: 0, ops_left: 0 }
    }

    fn push(&mut self, op: Op, ins: Vec<Src>) -> usize {
        self.nodes.push(Node { op, ins });
        self.nodes.len() - 1
    }
    fn add_open(&mut self, node: usize, port: usize, order: Order, single: bool) {
        self.open.push(Open { src: Src { node, port }, order, single });
    }
    fn take_open(&mut self) -> Open {
        let i = self.sim.choose("pick_open", 0, self.open.len() as u64 - 1) as usize;
        self.open.remove(i)
    }
    fn f(&mut self, n: u8) -> u8 {
        self.sim.choose("f", 0, n as u64 - 1) as u8
    }
    /// closure index: any if the input order is specified, a commutative one otherwise
    fn f_ord(&mut self, order: Order, n_comm: u8, n: u8) -> u8 {
        match order {
            Order::Seq => self.f(n),
            Order::Bag => self.f(n_comm),
        }
    }

    pub fn add_source(&mut self) {
        let c = self.n_chans;
        self.n_chans += 1;
        let n = self.push(Op::Src { chan: c }, vec![]);
        self.add_open(n, 0, Order::Seq, false);
    }
    fn add_src_iter(&mut self) {
        let k = self.sim.choose("iter_len", 0, 4) as usize;
        let mut items: Vec<It> = vec![];
        for _ in 0..k {
            items.push((self.sim.choose("ik", 0, cl::KD as u64 - 1) as u8, self.sim.choose("iv", 0, cl::VD as u64 - 1) as i16));
        }
        let n = self.push(Op::SrcIter { items }, vec![]);
        self.add_open(n, 0, Order::Seq, false);
    }

    /// Make sure at least `k` streams are open (tee an existing one if necessary).
    fn ensure_open(&mut self, k: usize) {
        while self.open.len() < k {
            let o = self.take_open();
            let t = self.push(Op::Tee, vec![o.src]);
            self.add_open(t, 0, o.order, o.single);
            self.add_open(t, 1, o.order, o.single);
        }
    }

    fn unary(&mut self, op: Op, o: Open, order: Order, single: bool) {
        let n = self.push(op, vec![o.src]);
        self.add_open(n, 0, order, single);
    }

    fn step_stateless(&mut self) {
        let o = self.take_open();
        match self.sim.weighted("stateless", &[5, 4, 3, 3, 2, 2, 1]) {
            0 => {
                let f = self.f(cl::N_MAP);
                self.unary(Op::Map { f }, o, o.order, o.single)
            }
            1 => {
                let f = self.f(cl::N_FILTER);
                self.unary(Op::Filter { f }, o, o.order, o.single)
            }
            2 => {
                let f = self.f(cl::N_FILTER_MAP);
                self.unary(Op::FilterMap { f }, o, o.order, o.single)
            }
            3 => {
                let f = self.f(cl::N_FLAT_MAP);
                self.unary(Op::FlatMap { f }, o, o.order, false)
            }
            4 => {
                let f = self.f(cl::N_FLAT_MAP);
                self.unary(Op::Flatten { f }, o, o.order, false)
            }
            5 => {
                let id = self.n_inspect;
                self.n_inspect += 1;
                self.unary(Op::Inspect { id }, o, o.order, o.single)
            }
            _ => self.unary(Op::Identity, o, o.order, o.single),
        }
    }

    fn step_stateful(&mut self, cfg: &GenCfg) {
        let o = self.take_open();
        let seq = o.order == Order::Seq;
        // weights; order-sensitive operators get weight 0 on Bag inputs
        let w = [
            3,                              // 0 persist
            4,                              // 1 unique
            3,                              // 2 multiset_delta
            3,                              // 3 sort
            2,                              // 4 sort_by_key
            if seq { 3 } else { 0 },        // 5 enumerate
            4,                              // 6 fold
            4,                              // 7 reduce
            3,                              // 8 fold_keyed
            3,                              // 9 reduce_keyed
            if seq { 2 } else { 0 },        // 10 scan
            2,                              // 11 fold_no_replay
            2,                              // 12 reduce_no_replay
            if cfg.defer { 3 } else { 0 },  // 13 defer_tick
            if cfg.defer { 2 } else { 0 },  // 14 defer_tick_lazy
        ];
        match self.sim.weighted("stateful", &w) {
            0 => self.unary(Op::Persist, o, Order::Bag, false),
            1 => {
                let p = pers(self.sim);
                self.unary(Op::Unique { p }, o, o.order, o.single)
            }
            2 => self.unary(Op::MultisetDelta, o, o.order, o.single),
            3 => self.unary(Op::Sort, o, Order::Seq, o.single),
            4 => {
                let f = self.f(2);
                self.unary(Op::SortByKey { f }, o, if o.single { Order::Seq } else { Order::Bag }, o.single)
            }
            5 => {
                let p = pers(self.sim);
                self.unary(Op::Enumerate { p }, o, Order::Seq, o.single)
            }
            6 => {
                let p = pers(self.sim);
                let f = self.f_ord(o.order, cl::N_FOLD_COMM, cl::N_FOLD);
                self.unary(Op::Fold { p, f }, o, Order::Seq, true)
            }
            7 => {
                let p = pers(self.sim);
                let f = self.f_ord(o.order, cl::N_REDUCE_COMM, cl::N_REDUCE);
                self.unary(Op::Reduce { p, f }, o, Order::Seq, true)
            }
            8 => {
                let p = pers(self.sim);
                let f = self.f_ord(o.order, cl::N_KEYED_COMM, cl::N_KEYED);
                self.unary(Op::FoldKeyed { p, f }, o, Order::Bag, false)
            }
            9 => {
                let p = pers(self.sim);
                let f = self.f_ord(o.order, cl::N_KEYED_COMM, cl::N_KEYED);
                self.unary(Op::ReduceKeyed { p, f }, o, Order::Bag, false)
            }
            10 => {
                let p = pers(self.sim);
                let f = self.f(cl::N_SCAN);
                self.unary(Op::Scan { p, f }, o, Order::Seq, o.single)
            }
            k @ (11 | 12) => {
                // the documentation is silent about a first tick without input: guarantee input
                // in the first tick by unioning a one-item source_iter in
                let it = (self.sim.choose("ik", 0, cl::KD as u64 - 1) as u8, self.sim.choose("iv", 0, cl::VD as u64 - 1) as i16);
                let s = self.push(Op::SrcIter { items: vec![it] }, vec![]);
                let u = self.push(Op::Union, vec![Src { node: s, port: 0 }, o.src]);
                let p = pers(self.sim);
                let uo = Open { src: Src { node: u, port: 0 }, order: Order::Bag, single: false };
                if k == 11 {
                    let f = self.f(cl::N_FOLD_COMM);
                    self.unary(Op::FoldNoReplay { p, f }, uo, Order::Seq, true)
                } else {
                    let f = self.f(cl::N_REDUCE_COMM);
                    self.unary(Op::ReduceNoReplay { p, f }, uo, Order::Seq, true)
                }
            }
            13 => self.unary(Op::DeferTick, o, Order::Bag, o.single),
            _ => self.unary(Op::DeferTickLazy, o, Order::Bag, o.single),
        }
    }

    fn step_binary(&mut self) {
        self.ensure_open(2);
        let a = self.take_open();
        let b = self.take_open();
        let both_seq = a.order == Order::Seq && b.order == Order::Seq;
        let b_single_ok = b.single || b.order == Order::Seq;
        let w = [
            4,                                 // 0 union
            2,                                 // 1 chain
            if both_seq { 2 } else { 0 },      // 2 chain_first_n
            5,                                 // 3 join
            3,                                 // 4 join_multiset
            3,                                 // 5 cross_join
            2,                                 // 6 cross_join_multiset
            4,                                 // 7 anti_join
            4,                                 // 8 difference
            if both_seq { 3 } else { 0 },      // 9 zip
            if both_seq { 2 } else { 0 },      // 10 zip_longest
            if b_single_ok { 3 } else { 0 },   // 11 cross_singleton
            2,                                 // 12 defer_signal
        ];
        let ins = vec![a.src, b.src];
        let (op, order, single) = match self.sim.weighted("binary", &w) {
            0 => (Op::Union, Order::Bag, false),
            1 => (Op::Chain, if both_seq { Order::Seq } else { Order::Bag }, false),
            2 => {
                let n = self.sim.choose("first_n", 0, 5) as usize;
                (Op::ChainFirstN { n }, Order::Seq, false)
            }
            k @ (3 | 4) => {
                let (pl, pr) = (pers(self.sim), pers(self.sim));
                let f = self.f(cl::N_PAIR);
                (Op::Join { pl, pr, multiset: k == 4, f }, Order::Bag, false)
            }
            k @ (5 | 6) => {
                let (pl, pr) = (pers(self.sim), pers(self.sim));
                let f = self.f(cl::N_PAIR);
                (Op::CrossJoin { pl, pr, multiset: k == 6, f }, Order::Bag, false)
            }
            7 => {
                let (pp, pn) = (pers(self.sim), pers(self.sim));
                (Op::AntiJoin { pp, pn }, if pp == Pers::Tick { a.order } else { Order::Bag }, a.single && pp == Pers::Tick)
            }
            8 => {
                let (pp, pn) = (pers(self.sim), pers(self.sim));
                (Op::Difference { pp, pn }, if pp == Pers::Tick { a.order } else { Order::Bag }, a.single && pp == Pers::Tick)
            }
            9 => (Op::Zip { f: self.f(cl::N_PAIR) }, Order::Seq, a.single || b.single),
            10 => (Op::ZipLongest { f: self.f(cl::N_PAIR) }, Order::Seq, a.single && b.single),
            11 => (Op::CrossSingleton { f: self.f(cl::N_PAIR) }, a.order, a.single),
            _ => (Op::DeferSignal, a.order, false),
        };
        let n = self.push(op, ins);
        self.add_open(n, 0, order, single);
    }

    fn step_fanout(&mut self) {
        let o = self.take_open();
        match self.sim.weighted("fanout", &[5, 3, 2, 2]) {
            0 => {
                let k = self.sim.choose("tee_n", 2, 3) as usize;
                let t = self.push(Op::Tee, vec![o.src]);
                for p in 0..k {
                    self.add_open(t, p, o.order, o.single);
                }
            }
            1 => {
                let k = self.sim.choose("part_n", 2, 3) as usize;
                let f = self.f(3);
                let t = self.push(Op::Partition { f, n: k }, vec![o.src]);
                for p in 0..k {
                    self.add_open(t, p, o.order, o.single);
                }
            }
            2 => {
                let f = self.f(3);
                let t = self.push(Op::DemuxEnum { f }, vec![o.src]);
                for p in 0..3 {
                    self.add_open(t, p, o.order, o.single);
                }
            }
            _ => {
                let f = self.f(cl::N_MAP);
                let t = self.push(Op::Unzip { f }, vec![o.src]);
                for p in 0..2 {
                    self.add_open(t, p, o.order, o.single);
                }
            }
        }
    }

    /// Close every open stream: at most 3 sinks, the rest is unioned into the last one.
    pub fn close(&mut self) {
        while self.open.len() > 3 {
            let a = self.open.pop().unwrap();
            let b = self.open.pop().unwrap();
            let u = self.push(Op::Union, vec![a.src, b.src]);
            self.add_open(u, 0, Order::Bag, false);
        }
        let open = std::mem::take(&mut self.open);
        for o in open {
            let id = self.sink_order.len();
            self.sink_order.push(o.order);
            self.push(Op::Sink { id }, vec![o.src]);
        }
    }

    pub fn finish(self, kind: &str) -> Program {
        let n = self.nodes.len();
        Program { kind: kind.to_string(), nodes: self.nodes, n_chans: self.n_chans, sink_order: self.sink_order, n_inspect: self.n_inspect, emit_order: (0..n).collect() }
    }
}

/// A free-form program over the whole catalogue.
pub fn gen_free(sim: &mut Sim, cfg: &GenCfg) -> Program {
    let mut g = G::new(sim);
    let nch = g.sim.choose("n_chans", 1, cfg.max_chans as u64) as usize;
    for _ in 0..nch {
        g.add_source();
    }
    if g.sim.flip("src_iter", 1, 3) {
        g.add_src_iter();
    }
    g.ops_left = g.sim.choose("n_ops", cfg.min_ops as u64, cfg.max_ops as u64) as usize;
    while g.ops_left > 0 {
        g.ops_left -= 1;
        match g.sim.weighted("family", &cfg.w) {
            0 => g.step_stateless(),
            1 => g.step_stateful(cfg),
            2 => g.step_binary(),
            _ => g.step_fanout(),
        }
    }
    g.close();
    g.finish(cfg.kind)
}
