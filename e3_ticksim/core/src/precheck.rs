//! Run the DFIR compile pipeline (`dfir_lang` as a library: parse -> flat graph -> partition ->
//! code generation) on a program text *before* rustc sees it, exactly as `dfir_macro` does.

use std::collections::BTreeMap;

use dfir_lang::graph::{BuildDfirCodeOutput, Color, GraphNode, build_dfir_code};
use dfir_lang::parse::DfirCode;

#[derive(Clone, Debug, Default)]
pub struct PrecheckInfo {
    /// operator name -> (times compiled as pull, times compiled as push)
    pub colors: BTreeMap<String, (u32, u32)>,
    pub subgraphs: usize,
    pub handoffs: usize,
}

/// `Ok` if dfir_lang accepts the program, `Err(messages)` if it rejects it.
pub fn precheck(text: &str) -> Result<PrecheckInfo, String> {
    let code: DfirCode = syn::parse_str(text).map_err(|e| format!("parse error: {e}"))?;
    let root = quote::quote! { ::dfir_rs };
    match build_dfir_code(code, &root) {
        Ok(BuildDfirCodeOutput { partitioned_graph, .. }) => {
            let mut info = PrecheckInfo::default();
            let colors = partitioned_graph.node_color_map();
            for (id, node) in partitioned_graph.nodes() {
                match node {
                    GraphNode::Operator(op) => {
                        let name = op.name_string();
                        let e = info.colors.entry(name).or_insert((0, 0));
                        match colors.get(id) {
                            Some(Color::Pull) => e.0 += 1,
                            Some(Color::Push) => e.1 += 1,
                            _ => {}
                        }
                    }
                    GraphNode::Handoff { .. } => info.handoffs += 1,
                    _ => {}
                }
            }
            info.subgraphs = partitioned_graph.subgraph_ids().count();
            Ok(info)
        }
        Err(diags) => {
            let msgs: Vec<String> = diags.iter().map(|d| format!("{d}")).collect();
            Err(msgs.join(" | "))
        }
    }
}

/// Debugging aid: the partitioned graph of a program as mermaid text.
pub fn mermaid(text: &str) -> Result<String, String> {
    let code: DfirCode = syn::parse_str(text).map_err(|e| format!("parse error: {e}"))?;
    let root = quote::quote! { ::dfir_rs };
    match build_dfir_code(code, &root) {
        Ok(BuildDfirCodeOutput { partitioned_graph, .. }) => Ok(partitioned_graph.to_mermaid(&Default::default())),
        Err(diags) => Err(diags.iter().map(|d| format!("{d}")).collect::<Vec<_>>().join(" | ")),
    }
}
