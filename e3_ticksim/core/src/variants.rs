//! C22: semantics-preserving rewrites that change how the compiler realises a program (pull vs
//! push colouring, subgraph partitioning, statement order) but not what it computes.

use simcore::Sim;

use crate::ast::{Node, Op, Program, Src};

/// Insert `op` (one input, one output) on the edge into input `port` of node `dst`.
fn splice(p: &mut Program, dst: usize, port: usize, op: Op) -> usize {
    let old = p.nodes[dst].ins[port];
    p.nodes.push(Node { op, ins: vec![old] });
    let x = p.nodes.len() - 1;
    p.nodes[dst].ins[port] = Src { node: x, port: 0 };
    // declare it right before its consumer
    let pos = p.emit_order.iter().position(|&i| i == dst).unwrap_or(p.emit_order.len());
    p.emit_order.insert(pos, x);
    x
}

fn random_edge(p: &Program, sim: &mut Sim) -> Option<(usize, usize)> {
    let edges: Vec<(usize, usize)> = p.nodes.iter().enumerate().flat_map(|(i, n)| (0..n.ins.len()).map(move |q| (i, q))).collect();
    if edges.is_empty() {
        return None;
    }
    Some(edges[sim.choose("edge", 0, edges.len() as u64 - 1) as usize])
}

pub const KINDS: &[&str] = &["idmap", "uniontee", "shuffle", "mixed"];

/// Variant number `k` of `base`.
pub fn variant(base: &Program, sim: &mut Sim, k: usize) -> (String, Program) {
    let kind = match k {
        0 => sim.choose("vkind", 0, 1) as usize,
        1 => 1 + sim.choose("vkind", 0, 1) as usize,
        _ => 3,
    };
    let mut p = base.clone();
    let n_edits = sim.choose("n_edits", 1, 4);
    for _ in 0..n_edits {
        let what = match kind {
            0 => sim.choose("edit", 0, 1),
            1 => 2 + sim.choose("edit", 0, 3),
            2 => 6,
            _ => sim.choose("edit", 0, 6),
        };
        let Some((dst, port)) = random_edge(&p, sim) else { break };
        match what {
            0 => {
                splice(&mut p, dst, port, Op::Identity);
            }
            1 => {
                splice(&mut p, dst, port, Op::MapId);
            }
            // single-input union
            2 => {
                splice(&mut p, dst, port, Op::Union);
            }
            // single-output tee
            3 => {
                splice(&mut p, dst, port, Op::Tee);
            }
            // union with an empty second input
            4 => {
                let u = splice(&mut p, dst, port, Op::Union);
                p.nodes.push(Node { op: Op::NullSrc, ins: vec![] });
                let ns = p.nodes.len() - 1;
                p.nodes[u].ins.push(Src { node: ns, port: 0 });
                p.emit_order.push(ns);
            }
            // tee whose second leg goes to null()
            5 => {
                let t = splice(&mut p, dst, port, Op::Tee);
                p.nodes.push(Node { op: Op::Null, ins: vec![Src { node: t, port: 1 }] });
                let nl = p.nodes.len() - 1;
                p.emit_order.push(nl);
            }
            // statement order shuffle (Fisher-Yates)
            _ => {
                let n = p.emit_order.len();
                for i in (1..n).rev() {
                    let j = sim.choose("shuffle", 0, i as u64) as usize;
                    p.emit_order.swap(i, j);
                }
            }
        }
    }
    (KINDS[kind].to_string(), p)
}
