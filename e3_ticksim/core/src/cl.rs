//! Closure library. The *same* functions are called by the closures inside the generated DFIR
//! programs and by the reference interpreter, so a disagreement between a compiled program and
//! the interpreter can never come from the user-closure side.
//!
//! Values are kept in small domains (keys 0..KD, vals 0..VD after a `map`) so that duplicates,
//! key matches and set/multiset differences happen all the time. All arithmetic wraps.

use crate::ast::It;

pub const KD: u8 = 4;
pub const VD: i16 = 6;

#[inline]
fn nk(k: i32) -> u8 {
    k.rem_euclid(KD as i32) as u8
}
#[inline]
fn nv(v: i32) -> i16 {
    v.rem_euclid(VD as i32) as i16
}

pub const N_MAP: u8 = 6;
pub fn map_f(f: u8, (k, v): It) -> It {
    let (k, v) = (k as i32, v as i32);
    match f % N_MAP {
        0 => (nk(k), nv(v + 1)),
        1 => (nk(k + 1), nv(v)),
        2 => (nk(v), nv(k)),
        3 => (nk(k), nv(v * 2 + k)),
        4 => (nk(k + v), nv(v / 2)),
        _ => (0, nv(v)),
    }
}

pub const N_FILTER: u8 = 5;
pub fn filter_f(f: u8, &(k, v): &It) -> bool {
    match f % N_FILTER {
        0 => v % 2 == 0,
        1 => k != 0,
        2 => (k as i16).wrapping_add(v) % 3 != 0,
        3 => v > 1,
        _ => k % 2 == 0,
    }
}

pub const N_FILTER_MAP: u8 = 4;
pub fn filter_map_f(f: u8, x: It) -> Option<It> {
    if filter_f(f.wrapping_add(1), &x) { Some(map_f(f.wrapping_add(2), x)) } else { None }
}

pub const N_FLAT_MAP: u8 = 4;
/// 0..=3 output items per input item.
pub fn flat_map_f(f: u8, (k, v): It) -> Vec<It> {
    let n = match f % N_FLAT_MAP {
        0 => (v.rem_euclid(3)) as usize,
        1 => (k % 2) as usize + 1,
        2 => 2,
        _ => ((k as i16).wrapping_add(v).rem_euclid(4)) as usize,
    };
    (0..n).map(|i| (nk(k as i32 + i as i32), nv(v as i32 + i as i32 * 2))).collect()
}

// ---- accumulators over It -> i16 ------------------------------------------------------------
/// fold functions `0..N_FOLD_COMM` are insensitive to the order of the items
pub const N_FOLD_COMM: u8 = 4;
pub const N_FOLD: u8 = 6;
pub fn fold_init(f: u8) -> i16 {
    match f % N_FOLD {
        0 => 0,
        1 => -1,
        2 => 0,
        3 => 1,
        4 => 7,
        _ => 0,
    }
}
pub fn fold_f(f: u8, acc: &mut i16, (k, v): It) {
    match f % N_FOLD {
        0 => *acc = acc.wrapping_add(v).wrapping_add(k as i16),
        1 => *acc = (*acc).max(v.wrapping_mul(4).wrapping_add(k as i16)),
        2 => *acc = acc.wrapping_add(1),
        3 => *acc ^= 1i16.wrapping_shl((v as u32).wrapping_mul(4).wrapping_add(k as u32) % 15),
        4 => *acc = acc.wrapping_mul(3).wrapping_add(v).wrapping_add(k as i16 * 7),
        _ => *acc = acc.wrapping_mul(-5).wrapping_sub(v.wrapping_mul(2).wrapping_add(k as i16)),
    }
}
/// `fold`'s i16 accumulator as an item
pub fn fold_back(a: i16) -> It {
    (nk(a as i32), a)
}

// ---- reduce over It -> It -------------------------------------------------------------------
pub const N_REDUCE_COMM: u8 = 3;
pub const N_REDUCE: u8 = 5;
pub fn reduce_f(f: u8, acc: &mut It, x: It) {
    match f % N_REDUCE {
        0 => *acc = (*acc).max(x),
        1 => *acc = ((acc.0 + x.0) % KD, acc.1.wrapping_add(x.1)),
        2 => *acc = (*acc).min(x),
        3 => *acc = (x.0, acc.1.wrapping_mul(3).wrapping_add(x.1)),
        _ => *acc = (acc.0, acc.1.wrapping_sub(x.1).wrapping_mul(2)),
    }
}

// ---- keyed accumulators (value only) --------------------------------------------------------
pub const N_KEYED_COMM: u8 = 3;
pub const N_KEYED: u8 = 5;
pub fn keyed_init(f: u8) -> i16 {
    match f % N_KEYED {
        0 => 0,
        1 => -3,
        2 => 0,
        3 => 1,
        _ => 2,
    }
}
pub fn keyed_f(f: u8, acc: &mut i16, v: i16) {
    match f % N_KEYED {
        0 => *acc = acc.wrapping_add(v),
        1 => *acc = (*acc).max(v),
        2 => *acc = acc.wrapping_add(1),
        3 => *acc = acc.wrapping_mul(3).wrapping_add(v),
        _ => *acc = acc.wrapping_mul(-2).wrapping_add(v.wrapping_add(1)),
    }
}

// ---- scan: running state, may drop items but never terminates the stream -------------------
pub const N_SCAN: u8 = 3;
pub fn scan_init(f: u8) -> i16 {
    (f % N_SCAN) as i16
}
pub fn scan_f(f: u8, acc: &mut i16, (k, v): It) -> Option<It> {
    match f % N_SCAN {
        0 => {
            *acc = acc.wrapping_add(v);
            Some((k, *acc))
        }
        1 => {
            *acc = acc.wrapping_mul(2).wrapping_add(k as i16);
            Some((nk(*acc as i32), v))
        }
        _ => {
            *acc = acc.wrapping_add(1);
            Some((k, v.wrapping_add(*acc)))
        }
    }
}

// ---- adapters mapping operator outputs back to It -------------------------------------------
pub const N_PAIR: u8 = 4;
/// join output `(k, (a, b))`
pub fn join_back(f: u8, k: u8, a: i16, b: i16) -> It {
    match f % N_PAIR {
        0 => (k, a.wrapping_mul(8).wrapping_add(b)),
        1 => (k, a.wrapping_sub(b)),
        2 => (nk(k as i32 + a as i32), b.wrapping_mul(8).wrapping_add(a)),
        _ => (k, a.wrapping_mul(16).wrapping_add(b.wrapping_mul(2)).wrapping_add(1)),
    }
}
/// cross_join / zip output `(a, b)`
pub fn pair_back(f: u8, a: It, b: It) -> It {
    match f % N_PAIR {
        0 => (nk(a.0 as i32 * 2 + b.0 as i32), a.1.wrapping_mul(8).wrapping_add(b.1)),
        1 => (a.0, a.1.wrapping_mul(32).wrapping_add(b.1.wrapping_mul(4)).wrapping_add(b.0 as i16)),
        2 => (b.0, b.1.wrapping_mul(32).wrapping_add(a.1.wrapping_mul(4)).wrapping_add(a.0 as i16)),
        _ => (nk(a.0 as i32 + b.0 as i32), a.1.wrapping_sub(b.1.wrapping_mul(8))),
    }
}
/// zip_longest output
pub fn longest_back(f: u8, a: Option<It>, b: Option<It>) -> It {
    match (a, b) {
        (Some(a), Some(b)) => pair_back(f, a, b),
        (Some(a), None) => (a.0, a.1.wrapping_add(1000)),
        (None, Some(b)) => (b.0, b.1.wrapping_add(2000)),
        (None, None) => (0, -1),
    }
}
/// enumerate output `(i, x)`
pub fn enum_back(i: usize, (k, v): It) -> It {
    (k, v.wrapping_add((i as i16).wrapping_mul(16)))
}
/// injective sort keys (total orders on It)
pub const N_SORT_KEY: u8 = 3;
pub fn sort_key(f: u8, &(k, v): &It) -> (i32, i32) {
    match f % N_SORT_KEY {
        0 => (v as i32, k as i32),
        1 => (-(k as i32), v as i32),
        _ => (-(v as i32), -(k as i32)),
    }
}
/// partition / demux index in 0..n
pub fn part_f(f: u8, &(k, v): &It, n: usize) -> usize {
    let h = match f % 3 {
        0 => k as i32,
        1 => v as i32,
        _ => k as i32 + v as i32,
    };
    h.rem_euclid(n as i32) as usize
}
/// unzip: the two halves
pub fn unzip_f(f: u8, x: It) -> (It, It) {
    (map_f(f, x), map_f(f.wrapping_add(3), x))
}
/// decay step for feedback cycles: `Some` strictly decreases `v` towards 0, `None` at/below 0.
pub fn decay_f((k, v): It) -> Option<It> {
    if (1..=64).contains(&v) { Some((k, v / 2)) } else { None }
}

// ---- references (C25): the value held by a handoff is seen as a slice -------------------------
pub const N_REF: u8 = 3;
/// Output of a reading closure: depends on the item and on the value seen.
pub fn ref_read(f: u8, (k, v): It, seen: &[It]) -> It {
    // order-insensitive summary of the value seen (a handoff() buffer has no specified order)
    let s = seen.iter().fold(0i16, |a, e| a.wrapping_add(e.1.wrapping_mul(31)).wrapping_add(e.0 as i16 + 1));
    match f % N_REF {
        0 => (k, v.wrapping_add(s)),
        1 => (nk(k as i32 + seen.len() as i32), s.wrapping_sub(v)),
        _ => (k, s.wrapping_mul(3).wrapping_add(v)),
    }
}
/// A writing closure: updates the held value in place (item-order sensitive), returns an item
/// that depends on the value it saw.
pub fn ref_write(f: u8, (k, v): It, cur: &mut [It]) -> It {
    let out = ref_read(f, (k, v), cur);
    for e in cur.iter_mut() {
        match f % N_REF {
            0 => e.1 = e.1.wrapping_add(v).wrapping_add(1),
            1 => e.1 = e.1.wrapping_mul(2).wrapping_sub(v),
            _ => *e = (nk(e.0 as i32 + k as i32), e.1.wrapping_add(v.wrapping_mul(3))),
        }
    }
    out
}

/// The enum used by `demux_enum`.
#[derive(Clone, Copy, Debug, PartialEq, Eq, dfir_rs::DemuxEnum)]
pub enum Shape3 {
    A(u8, i16),
    B(u8, i16),
    C(u8, i16),
}
pub fn to_shape(f: u8, x: It) -> Shape3 {
    match part_f(f, &x, 3) {
        0 => Shape3::A(x.0, x.1),
        1 => Shape3::B(x.0, x.1),
        _ => Shape3::C(x.0, x.1),
    }
}
