//! AST -> DFIR surface syntax, and the Rust glue around it in the generated crates.

use std::fmt::Write as _;

use crate::ast::{It, Op, Program};

struct NodeCode {
    /// `name = pipeline;` statements
    stmts: Vec<String>,
    /// per input port: the endpoint to write on the right of `->`
    ins: Vec<String>,
    /// per output port: the endpoint to write on the left of `->`
    outs: Vec<String>,
}

fn items_lit(items: &[It]) -> String {
    if items.is_empty() {
        return "::std::vec::Vec::<It>::new()".into();
    }
    let mut s = String::from("vec![");
    for (i, (k, v)) in items.iter().enumerate() {
        if i > 0 {
            s.push_str(", ");
        }
        let _ = write!(s, "({k}u8, {v}i16)");
    }
    s.push(']');
    s
}

fn node_code(p: &Program, i: usize, op: &Op, out_deg: usize) -> NodeCode {
    let n = format!("n{i}");
    let one_in = || vec![n.clone()];
    let one_out = || vec![n.clone()];
    let two_in = |a: &str, b: &str| vec![format!("[{a}]{n}"), format!("[{b}]{n}")];
    let simple = |pipe: String, ins: Vec<String>, outs: Vec<String>| NodeCode { stmts: vec![format!("{n} = {pipe};")], ins, outs };
    match op {
        Op::Src { chan } => simple(format!("source_stream(rx{chan})"), vec![], one_out()),
        Op::SrcIter { items } => simple(format!("source_iter({})", items_lit(items)), vec![], one_out()),
        Op::NullSrc => simple("null::<It>()".into(), vec![], one_out()),
        Op::Map { f } => simple(format!("map(|x: It| cl::map_f({f}, x))"), one_in(), one_out()),
        Op::Filter { f } => simple(format!("filter(|x: &It| cl::filter_f({f}, x))"), one_in(), one_out()),
        Op::FilterMap { f } => simple(format!("filter_map(|x: It| cl::filter_map_f({f}, x))"), one_in(), one_out()),
        Op::FlatMap { f } => simple(format!("flat_map(|x: It| cl::flat_map_f({f}, x))"), one_in(), one_out()),
        Op::Flatten { f } => simple(format!("map(|x: It| cl::flat_map_f({f}, x)) -> flatten()"), one_in(), one_out()),
        Op::Inspect { id } => simple(format!("inspect(|x: &It| log.inspect({id}, context.current_tick().0, *x))"), one_in(), one_out()),
        Op::Identity => simple("identity::<It>()".into(), one_in(), one_out()),
        Op::MapId => simple("map(|x: It| x)".into(), one_in(), one_out()),
        Op::Decay => simple("filter_map(|x: It| cl::decay_f(x))".into(), one_in(), one_out()),
        Op::HoffSingleton => simple("singleton()".into(), one_in(), one_out()),
        Op::HoffOptional => simple("optional()".into(), one_in(), one_out()),
        Op::HoffVec => simple("handoff()".into(), one_in(), one_out()),
        Op::RefMap { target, group, write, f } => {
            let rid = p.ref_ids()[target];
            let t = format!("n{target}");
            let m = if *write { "mut " } else { "" };
            // `#{g} name` with an explicit access group, plain `#name` for `group == u32::MAX`
            let g = if *group == u32::MAX { String::new() } else { format!("{{{group}}} ") };
            let slice = match (&p.nodes[*target].op, *write) {
                (Op::HoffSingleton, false) => format!("::std::slice::from_ref(#{g}{t})"),
                (Op::HoffSingleton, true) => format!("::std::slice::from_mut(#{g}mut {t})"),
                (_, false) => format!("(#{g}{t}).as_slice()"),
                (_, true) => format!("(#{g}mut {t}).as_mut_slice()"),
            };
            let _ = m;
            let call = if *write { "ref_write" } else { "ref_read" };
            simple(format!("map(|x: It| log.{call}({rid}, {group}, context.current_tick().0, {f}, x, {slice}))"), one_in(), one_out())
        }
        Op::Batch => simple("batch()".into(), one_in(), one_out()),
        Op::BatchLazy => simple("batch_lazy()".into(), one_in(), one_out()),
        Op::AllIterations => simple("all_iterations()".into(), one_in(), one_out()),
        Op::Persist => simple("persist::<'static>()".into(), one_in(), one_out()),
        Op::Unique { p } => simple(format!("unique::<{}>()", p.s()), one_in(), one_out()),
        Op::MultisetDelta => simple("multiset_delta()".into(), one_in(), one_out()),
        Op::Sort => simple("sort()".into(), one_in(), one_out()),
        Op::SortByKey { f } => {
            let proj = if f % 2 == 0 { "&x.0" } else { "&x.1" };
            simple(format!("sort_by_key(|x: &It| {proj})"), one_in(), one_out())
        }
        Op::Enumerate { p } => simple(format!("enumerate::<{}>() -> map(|(i, x): (usize, It)| cl::enum_back(i, x))", p.s()), one_in(), one_out()),
        Op::Fold { p, f } => simple(
            format!("fold::<{}>(|| cl::fold_init({f}), |a: &mut i16, x: It| cl::fold_f({f}, a, x)) -> map(|a: i16| cl::fold_back(a))", p.s()),
            one_in(),
            one_out(),
        ),
        Op::FoldNoReplay { p, f } => simple(
            format!("fold_no_replay::<{}>(|| cl::fold_init({f}), |a: &mut i16, x: It| cl::fold_f({f}, a, x)) -> map(|a: i16| cl::fold_back(a))", p.s()),
            one_in(),
            one_out(),
        ),
        Op::Reduce { p, f } => simple(format!("reduce::<{}>(|a: &mut It, x: It| cl::reduce_f({f}, a, x))", p.s()), one_in(), one_out()),
        Op::ReduceNoReplay { p, f } => simple(format!("reduce_no_replay::<{}>(|a: &mut It, x: It| cl::reduce_f({f}, a, x))", p.s()), one_in(), one_out()),
        Op::FoldKeyed { p, f } => simple(
            format!("fold_keyed::<{}, u8, i16>(|| cl::keyed_init({f}), |a: &mut i16, v: i16| cl::keyed_f({f}, a, v))", p.s()),
            one_in(),
            one_out(),
        ),
        Op::ReduceKeyed { p, f } => simple(format!("reduce_keyed::<{}, u8, i16>(|a: &mut i16, v: i16| cl::keyed_f({f}, a, v))", p.s()), one_in(), one_out()),
        Op::Scan { p, f } => simple(format!("scan::<{}>(|| cl::scan_init({f}), |a: &mut i16, x: It| cl::scan_f({f}, a, x))", p.s()), one_in(), one_out()),
        Op::DeferTick => simple("defer_tick()".into(), one_in(), one_out()),
        Op::DeferTickLazy => simple("defer_tick_lazy()".into(), one_in(), one_out()),
        Op::Union => simple("union()".into(), vec![n.clone(); 8], one_out()),
        Op::Chain => simple("chain()".into(), two_in("0", "1"), one_out()),
        // chain_first_n stops pulling after n items: lazily pulled operators upstream of it in the
        // same subgraph would then not see the rest of their input (unspecified); an explicit
        // handoff in front of each input makes the upstream run to completion
        Op::ChainFirstN { n: k } => NodeCode {
            stmts: vec![
                format!("{n} = chain_first_n({k});"),
                format!("{n}_a = identity::<It>() -> handoff() -> [0]{n};"),
                format!("{n}_b = identity::<It>() -> handoff() -> [1]{n};"),
            ],
            ins: vec![format!("{n}_a"), format!("{n}_b")],
            outs: one_out(),
        },
        Op::Join { pl, pr, multiset, f } => simple(
            format!(
                "{}::<{}, {}>() -> map(|(k, (a, b)): (u8, (i16, i16))| cl::join_back({f}, k, a, b))",
                if *multiset { "join_multiset" } else { "join" },
                pl.s(),
                pr.s()
            ),
            two_in("0", "1"),
            one_out(),
        ),
        Op::CrossJoin { pl, pr, multiset, f } => simple(
            format!(
                "{}::<{}, {}>() -> map(|(a, b): (It, It)| cl::pair_back({f}, a, b))",
                if *multiset { "cross_join_multiset" } else { "cross_join" },
                pl.s(),
                pr.s()
            ),
            two_in("0", "1"),
            one_out(),
        ),
        Op::AntiJoin { pp, pn } => NodeCode {
            stmts: vec![format!("{n} = anti_join::<{}, {}>();", pp.s(), pn.s()), format!("{n}_neg = map(|x: It| x.0) -> [neg]{n};")],
            ins: vec![format!("[pos]{n}"), format!("{n}_neg")],
            outs: one_out(),
        },
        Op::Difference { pp, pn } => simple(format!("difference::<{}, {}>()", pp.s(), pn.s()), two_in("pos", "neg"), one_out()),
        Op::Zip { f } => simple(format!("zip() -> map(|(a, b): (It, It)| cl::pair_back({f}, a, b))"), two_in("0", "1"), one_out()),
        Op::ZipLongest { f } => simple(
            format!("zip_longest() -> map(|e: dfir_rs::itertools::EitherOrBoth<It, It>| cl::longest_back({f}, e.clone().left(), e.right()))"),
            two_in("0", "1"),
            one_out(),
        ),
        // cross_singleton short-circuits (documented): only the first `single` item is pulled and
        // `input` is not pulled at all when `single` is empty; defer_signal pulls only the first
        // signal. Handoffs in front, as for chain_first_n.
        Op::CrossSingleton { f } => NodeCode {
            stmts: vec![
                format!("{n} = cross_singleton() -> map(|(a, b): (It, It)| cl::pair_back({f}, a, b));"),
                format!("{n}_i = identity::<It>() -> handoff() -> [input]{n};"),
                format!("{n}_s = identity::<It>() -> handoff() -> [single]{n};"),
            ],
            ins: vec![format!("{n}_i"), format!("{n}_s")],
            outs: one_out(),
        },
        Op::DeferSignal => NodeCode {
            stmts: vec![format!("{n} = defer_signal();"), format!("{n}_s = identity::<It>() -> handoff() -> [signal]{n};")],
            ins: vec![format!("[input]{n}"), format!("{n}_s")],
            outs: one_out(),
        },
        Op::Tee => simple("tee()".into(), one_in(), vec![n.clone(); out_deg.max(1)]),
        Op::Partition { f, n: k } => {
            let names: Vec<String> = (0..*k).map(|j| format!("p{j}")).collect();
            let mut arms = String::new();
            for (j, nm) in names.iter().enumerate() {
                if j + 1 == names.len() {
                    let _ = write!(arms, "_ => {nm}");
                } else {
                    let _ = write!(arms, "{j} => {nm}, ");
                }
            }
            simple(
                format!("partition(|x: &It, [{}]| match cl::part_f({f}, x, {k}) {{ {arms} }})", names.join(", ")),
                one_in(),
                names.iter().map(|nm| format!("{n}[{nm}]")).collect(),
            )
        }
        Op::DemuxEnum { f } => simple(
            format!("map(|x: It| cl::to_shape({f}, x)) -> demux_enum::<cl::Shape3>()"),
            one_in(),
            vec![format!("{n}[A]"), format!("{n}[B]"), format!("{n}[C]")],
        ),
        Op::Unzip { f } => simple(format!("map(|x: It| cl::unzip_f({f}, x)) -> unzip()"), one_in(), vec![format!("{n}[0]"), format!("{n}[1]")]),
        Op::Sink { id } => simple(format!("for_each(|x: It| log.sink({id}, context.current_tick().0, x))"), one_in(), vec![]),
        Op::Null => simple("null()".into(), one_in(), vec![]),
    }
}

/// The DFIR program text (the body of `dfir_syntax! { .. }`).
pub fn dfir_text(p: &Program) -> String {
    let degs = p.out_degree();
    let codes: Vec<NodeCode> = p.nodes.iter().enumerate().map(|(i, n)| node_code(p, i, &n.op, degs[i])).collect();
    // statements per scope: index 0 = top level, 1 + l = loop block l
    let mut scopes: Vec<Vec<String>> = vec![vec![]; 1 + p.loops.len()];
    let sidx = |l: Option<usize>| l.map_or(0, |x| x + 1);
    let order: Vec<usize> = if p.emit_order.len() == p.nodes.len() { p.emit_order.clone() } else { (0..p.nodes.len()).collect() };
    for &i in &order {
        let li = p.loop_of(i);
        for st in &codes[i].stmts {
            scopes[sidx(li)].push(st.clone());
        }
        // edges into this node, right after its declaration; an edge that crosses a loop boundary
        // is written inside the loop (names declared in a loop block are only visible there)
        for (port, src) in p.nodes[i].ins.iter().enumerate() {
            let from = &codes[src.node].outs[src.port];
            let to = &codes[i].ins[port];
            let ls = p.loop_of(src.node);
            let scope = if p.loop_depth(ls) > p.loop_depth(li) { ls } else { li };
            scopes[sidx(scope)].push(format!("{from} -> {to};"));
        }
    }
    fn write_scope(p: &Program, scopes: &[Vec<String>], l: Option<usize>, indent: usize, s: &mut String) {
        let pad = " ".repeat(indent);
        for st in &scopes[l.map_or(0, |x| x + 1)] {
            let _ = writeln!(s, "{pad}{st}");
        }
        for (c, par) in p.loops.iter().enumerate() {
            if *par == l {
                let _ = writeln!(s, "{pad}loop {{");
                write_scope(p, scopes, Some(c), indent + 4, s);
                let _ = writeln!(s, "{pad}}};");
            }
        }
    }
    let mut s = String::new();
    // watchdog clock (not part of the AST): fires once per executed tick
    s.push_str("    source_iter([()]) -> persist::<'static>() -> for_each(|_: ()| log.clock(context.current_tick().0));\n");
    write_scope(p, &scopes, None, 4, &mut s);
    s
}

/// Rust source of one `build_<name>` function returning the compiled dataflow.
pub fn build_fn(name: &str, p: &Program) -> String {
    let mut s = String::new();
    let _ = writeln!(
        s,
        "#[allow(unused_variables, unused_mut, clippy::all)]\npub fn build_{name}(io: &mut Io) -> Dfir<impl TickClosure + use<>> {{\n    let log = io.log.clone();"
    );
    for c in 0..p.n_chans {
        let _ = writeln!(s, "    let rx{c} = io.take_rx({c});");
    }
    s.push_str("    dfir_syntax! {\n");
    for l in dfir_text(p).lines() {
        let _ = writeln!(s, "    {l}");
    }
    s.push_str("    }\n}\n");
    let _ = writeln!(
        s,
        "pub fn exec_{name}(plan: &Plan, tps: &[usize]) -> Observed {{\n    let mut io = Io::new({});\n    let mut df = build_{name}(&mut io);\n    drive(&mut df, &mut io, plan, tps)\n}}",
        p.n_chans
    );
    s
}

pub const MODULE_PRELUDE: &str = "#![allow(unused_imports)]\nuse dfir_rs::dfir_syntax;\nuse dfir_rs::scheduled::context::{Dfir, TickClosure};\nuse e3_core::ast::It;\nuse e3_core::cl;\nuse e3_core::drive::{drive, Io, Observed, Plan};\n";
