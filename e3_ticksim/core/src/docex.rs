//! Validation of the reference interpreter against the *documented* behaviour of the operators:
//! the examples of the doc comments in `/repo/dfir_lang/src/graph/ops/*.rs` (and of the loop
//! tests for `loop {}` blocks, which is where that syntax is specified), re-encoded over the item
//! type `(u8, i16)` as fixed programs with fixed per-tick inputs and the documented outputs.
//! The host runs this before every check; a contradiction is a harness error (exit 2).

use std::collections::BTreeMap;

use crate::ast::{It, Node, Op, Order, Pers, Program, Src};
use crate::interp::Interp;

#[derive(Default)]
struct B {
    nodes: Vec<Node>,
    n_chans: usize,
    sinks: Vec<Order>,
    loops: Vec<Option<usize>>,
    node_loop: Vec<Option<usize>>,
    cur: Option<usize>,
}
impl B {
    fn op(&mut self, op: Op, ins: &[Src]) -> Src {
        self.nodes.push(Node { op, ins: ins.to_vec() });
        self.node_loop.push(self.cur);
        Src { node: self.nodes.len() - 1, port: 0 }
    }
    fn src(&mut self) -> Src {
        let c = self.n_chans;
        self.n_chans += 1;
        self.op(Op::Src { chan: c }, &[])
    }
    fn iter(&mut self, items: &[It]) -> Src {
        self.op(Op::SrcIter { items: items.to_vec() }, &[])
    }
    fn sink(&mut self, s: Src, o: Order) {
        let id = self.sinks.len();
        self.sinks.push(o);
        self.op(Op::Sink { id }, &[s]);
    }
    fn port(s: Src, p: usize) -> Src {
        Src { node: s.node, port: p }
    }
    fn enter(&mut self, parent: Option<usize>) -> usize {
        self.loops.push(parent);
        self.cur = Some(self.loops.len() - 1);
        self.loops.len() - 1
    }
    fn fin(self) -> Program {
        let n = self.nodes.len();
        let has_loops = !self.loops.is_empty();
        Program {
            kind: "doc".into(),
            nodes: self.nodes,
            n_chans: self.n_chans,
            sink_order: self.sinks,
            n_inspect: 0,
            emit_order: (0..n).collect(),
            loops: self.loops,
            node_loop: if has_loops { self.node_loop } else { vec![] },
            n_refs: 0,
        }
    }
}

#[derive(Clone, Copy, PartialEq)]
enum Cmp {
    Seq,
    Bag,
    /// only the set of distinct items is documented
    Set,
}

fn ms(v: &[It]) -> BTreeMap<It, usize> {
    let mut m = BTreeMap::new();
    for x in v {
        *m.entry(*x).or_insert(0) += 1;
    }
    m
}

/// Run `prog` over `ticks` (arrivals per channel per tick) and compare sink 0.. with `want`.
fn check(name: &str, prog: Program, ticks: &[Vec<Vec<It>>], want: &[Vec<Vec<It>>], cmp: Cmp) -> Result<(), String> {
    let mut it = Interp::new(&prog);
    for (t, arr) in ticks.iter().enumerate() {
        let out = it.run_tick(arr);
        for (sid, w) in want[t].iter().enumerate() {
            let g = &out.sinks[sid];
            let ok = match cmp {
                Cmp::Seq => g == w,
                Cmp::Bag => ms(g) == ms(w),
                Cmp::Set => ms(g).keys().collect::<Vec<_>>() == ms(w).keys().collect::<Vec<_>>(),
            };
            if !ok {
                return Err(format!("doc example '{name}': tick {t} sink {sid}: interpreter says {g:?}, documentation says {w:?}"));
            }
        }
    }
    Ok(())
}

fn v(xs: &[i16]) -> Vec<It> {
    xs.iter().map(|x| (0u8, *x)).collect()
}

/// All documented examples. Returns the number of examples checked.
pub fn check_doc_examples() -> Result<usize, String> {
    let mut n = 0;
    let mut run = |r: Result<(), String>| -> Result<(), String> {
        n += 1;
        r
    };
    use Pers::{Static, Tick};

    // unique.rs: 'tick — "3, 4" then "3, 5 (3 is emitted again)"
    for (p, second) in [(Tick, vec![3, 5]), (Static, vec![5])] {
        let mut b = B::default();
        let s = b.src();
        let u = b.op(Op::Unique { p }, &[s]);
        b.sink(u, Order::Seq);
        run(check("unique", b.fin(), &[vec![v(&[3, 3, 4, 3])], vec![v(&[3, 5])]], &[vec![v(&[3, 4])], vec![v(&second)]], Cmp::Seq))?;
    }
    // unique.rs: [1, 1, 2, 3, 2, 1, 3] -> [1, 2, 3]
    {
        let mut b = B::default();
        let s = b.iter(&v(&[1, 1, 2, 3, 2, 1, 3]));
        let u = b.op(Op::Unique { p: Tick }, &[s]);
        b.sink(u, Order::Seq);
        run(check("unique/iter", b.fin(), &[vec![]], &[vec![v(&[1, 2, 3])]], Cmp::Seq))?;
    }
    // multiset_delta.rs: [3,4,3] then [3,5,3,3] -> "5, 3" ("first two 3s are removed due to previous tick")
    {
        let mut b = B::default();
        let s = b.src();
        let u = b.op(Op::MultisetDelta, &[s]);
        b.sink(u, Order::Seq);
        run(check("multiset_delta", b.fin(), &[vec![v(&[3, 4, 3])], vec![v(&[3, 5, 3, 3])]], &[vec![v(&[3, 4, 3])], vec![v(&[5, 3])]], Cmp::Seq))?;
    }
    // persist.rs: source_iter(["hello"]) -> persist::<'static>() replays "hello" on every tick
    {
        let mut b = B::default();
        let s = b.iter(&v(&[7]));
        let u = b.op(Op::Persist, &[s]);
        b.sink(u, Order::Bag);
        run(check("persist", b.fin(), &[vec![], vec![], vec![]], &[vec![v(&[7])], vec![v(&[7])], vec![v(&[7])]], Cmp::Bag))?;
    }
    // join.rs: 'tick: only "(hello, (world, oakland))"; 'static: also "(hello, (world, san francisco))";
    // persist.rs: persist -> join::<'tick> prints oakland, then oakland + san francisco, and "equivalently
    // we could specify that the join has 'static persistence"
    // encoding: hello=key 0, world=1, oakland=2, san francisco=3; join_back(0): (k, a*8+b)
    for (p, second) in [(Tick, vec![]), (Static, vec![(0u8, 10i16), (0, 11)])] {
        let mut b = B::default();
        let l = b.iter(&[(0, 1)]);
        let r = b.src();
        let j = b.op(Op::Join { pl: p, pr: p, multiset: false, f: 0 }, &[l, r]);
        b.sink(j, Order::Bag);
        run(check("join", b.fin(), &[vec![vec![(0, 2)]], vec![vec![(0, 3)]]], &[vec![vec![(0, 10)]], vec![second]], Cmp::Bag))?;
    }
    {
        // persist -> join::<'tick>
        let mut b = B::default();
        let l = b.iter(&[(0, 1)]);
        let lp = b.op(Op::Persist, &[l]);
        let r = b.src();
        let rp = b.op(Op::Persist, &[r]);
        let j = b.op(Op::Join { pl: Tick, pr: Tick, multiset: false, f: 0 }, &[lp, rp]);
        b.sink(j, Order::Bag);
        run(check("persist+join", b.fin(), &[vec![vec![(0, 2)]], vec![vec![(0, 3)]]], &[vec![vec![(0, 10)]], vec![vec![(0, 10), (0, 11)]]], Cmp::Bag))?;
    }
    // join.rs: duplicates are eliminated; join_multiset.rs: they are not
    for (multiset, want) in [(false, vec![(1u8, 5 * 8 + 9i16)]), (true, vec![(1, 49), (1, 49)])] {
        let mut b = B::default();
        let l = b.iter(&[(1, 5), (2, 6), (1, 5)]);
        let r = b.iter(&[(1, 9)]);
        let j = b.op(Op::Join { pl: Tick, pr: Tick, multiset, f: 0 }, &[l, r]);
        b.sink(j, Order::Bag);
        run(check("join/dups", b.fin(), &[vec![]], &[vec![want]], Cmp::Bag))?;
    }
    // cross_join.rs: 'tick: source_iter side only present in the first tick
    {
        let mut b = B::default();
        let l = b.iter(&[(1, 1), (2, 2)]);
        let r = b.src();
        let j = b.op(Op::CrossJoin { pl: Tick, pr: Tick, multiset: false, f: 1 }, &[l, r]);
        b.sink(j, Order::Bag);
        let pb = |a: It, bb: It| crate::cl::pair_back(1, a, bb);
        run(check(
            "cross_join",
            b.fin(),
            &[vec![vec![(3, 3)]], vec![vec![(3, 4)]]],
            &[vec![vec![pb((1, 1), (3, 3)), pb((2, 2), (3, 3))]], vec![vec![]]],
            Cmp::Bag,
        ))?;
    }
    // cross_join_multiset.rs: 3 x 3 items with duplicates -> 9 pairs
    {
        let mut b = B::default();
        let l = b.iter(&[(1, 1), (1, 1), (2, 2)]);
        let r = b.iter(&[(3, 3), (0, 4), (0, 4)]);
        let j = b.op(Op::CrossJoin { pl: Tick, pr: Tick, multiset: true, f: 1 }, &[l, r]);
        b.sink(j, Order::Bag);
        let prog = b.fin();
        let mut it = Interp::new(&prog);
        let out = it.run_tick(&[]);
        run(if out.sinks[0].len() == 9 { Ok(()) } else { Err(format!("doc example 'cross_join_multiset': {} pairs, documentation says 9", out.sinks[0].len())) })?;
    }
    // anti_join.rs: pos [(cat,2),(cat,2),(elephant,3),(elephant,3)], neg [dog,cat,gorilla] -> both elephants
    {
        let mut b = B::default();
        let pos = b.iter(&[(1, 2), (1, 2), (2, 3), (2, 3)]);
        let neg = b.iter(&[(0, 0), (1, 0), (3, 0)]);
        let j = b.op(Op::AntiJoin { pp: Tick, pn: Tick }, &[pos, neg]);
        b.sink(j, Order::Seq);
        run(check("anti_join", b.fin(), &[vec![]], &[vec![vec![(2, 3), (2, 3)]]], Cmp::Seq))?;
    }
    // difference.rs: [dog,cat,elephant] - [dog,cat,gorilla] = [elephant]
    {
        let mut b = B::default();
        let pos = b.iter(&v(&[0, 1, 2]));
        let neg = b.iter(&v(&[0, 1, 3]));
        let j = b.op(Op::Difference { pp: Tick, pn: Tick }, &[pos, neg]);
        b.sink(j, Order::Seq);
        run(check("difference", b.fin(), &[vec![]], &[vec![v(&[2])]], Cmp::Seq))?;
    }
    // defer_tick.rs: inp -> [pos]diff; inp -> defer_tick() -> [neg]diff: [1,2,3,4] then [3,4,5,6] -> 1 2 3 4 5 6
    {
        let mut b = B::default();
        let s = b.src();
        let t = b.op(Op::Tee, &[s]);
        let d = b.op(Op::DeferTick, &[B::port(t, 1)]);
        let j = b.op(Op::Difference { pp: Tick, pn: Tick }, &[t, d]);
        b.sink(j, Order::Bag);
        run(check("defer_tick+difference", b.fin(), &[vec![v(&[1, 2, 3, 4])], vec![v(&[3, 4, 5, 6])]], &[vec![v(&[1, 2, 3, 4])], vec![v(&[5, 6])]], Cmp::Bag))?;
    }
    // fold.rs / reduce.rs: one output per tick; 'tick restarts, 'static keeps aggregating
    for (p, second) in [(Tick, 3i16), (Static, 8)] {
        let mut b = B::default();
        let s = b.src();
        let f = b.op(Op::Fold { p, f: 0 }, &[s]);
        b.sink(f, Order::Seq);
        run(check("fold", b.fin(), &[vec![v(&[1, 4])], vec![v(&[3])]], &[vec![vec![crate::cl::fold_back(5)]], vec![vec![crate::cl::fold_back(second)]]], Cmp::Seq))?;
    }
    {
        // reduce of an empty stream emits nothing (iterator analogue: `None`)
        let mut b = B::default();
        let s = b.src();
        let f = b.op(Op::Reduce { p: Tick, f: 0 }, &[s]);
        b.sink(f, Order::Seq);
        run(check("reduce", b.fin(), &[vec![v(&[1, 5, 2])], vec![vec![]]], &[vec![v(&[5])], vec![vec![]]], Cmp::Seq))?;
    }
    // fold_keyed.rs ('tick): one tuple per distinct key; a later tick starts afresh
    {
        let mut b = B::default();
        let s = b.src();
        let f = b.op(Op::FoldKeyed { p: Tick, f: 0 }, &[s]);
        b.sink(f, Order::Bag);
        run(check(
            "fold_keyed",
            b.fin(),
            &[vec![vec![(1, 1), (1, 2), (2, 11), (2, 35), (3, 7)]], vec![vec![(1, 4)]]],
            &[vec![vec![(1, 3), (2, 46), (3, 7)]], vec![vec![(1, 4)]]],
            Cmp::Bag,
        ))?;
    }
    {
        let mut b = B::default();
        let s = b.src();
        let f = b.op(Op::ReduceKeyed { p: Static, f: 0 }, &[s]);
        b.sink(f, Order::Bag);
        run(check("reduce_keyed", b.fin(), &[vec![vec![(1, 1), (1, 2), (2, 11)]], vec![vec![(1, 4)]]], &[vec![vec![(1, 3), (2, 11)]], vec![vec![(1, 7), (2, 11)]]], Cmp::Bag))?;
    }
    // scan.rs: running sum [1,2,3,4] -> [1,3,6,10]
    {
        let mut b = B::default();
        let s = b.iter(&v(&[1, 2, 3, 4]));
        let f = b.op(Op::Scan { p: Tick, f: 0 }, &[s]);
        b.sink(f, Order::Seq);
        run(check("scan", b.fin(), &[vec![]], &[vec![v(&[1, 3, 6, 10])]], Cmp::Seq))?;
    }
    // sort.rs, enumerate.rs, zip.rs, zip_longest.rs, chain.rs, chain_first_n.rs
    {
        let mut b = B::default();
        let s = b.iter(&v(&[2, 3, 1]));
        let f = b.op(Op::Sort, &[s]);
        b.sink(f, Order::Seq);
        run(check("sort", b.fin(), &[vec![]], &[vec![v(&[1, 2, 3])]], Cmp::Seq))?;
    }
    for (p, second) in [(Tick, vec![(0u8, 9i16), (0, 16 + 9)]), (Static, vec![(0, 32 + 9), (0, 48 + 9)])] {
        let mut b = B::default();
        let s = b.src();
        let f = b.op(Op::Enumerate { p }, &[s]);
        b.sink(f, Order::Seq);
        run(check("enumerate", b.fin(), &[vec![v(&[5, 5])], vec![v(&[9, 9])]], &[vec![vec![(0, 5), (0, 21)]], vec![second]], Cmp::Seq))?;
    }
    {
        let mut b = B::default();
        let l = b.iter(&v(&[0, 1, 2]));
        let r = b.iter(&v(&[0, 1, 2, 3, 4]));
        let z = b.op(Op::Zip { f: 0 }, &[l, r]);
        b.sink(z, Order::Seq);
        let pb = |a: i16, bb: i16| crate::cl::pair_back(0, (0, a), (0, bb));
        run(check("zip", b.fin(), &[vec![]], &[vec![vec![pb(0, 0), pb(1, 1), pb(2, 2)]]], Cmp::Seq))?;
    }
    {
        let mut b = B::default();
        let l = b.iter(&v(&[0, 1]));
        let r = b.iter(&v(&[0, 1, 2]));
        let z = b.op(Op::ZipLongest { f: 0 }, &[l, r]);
        b.sink(z, Order::Seq);
        let lb = |a: Option<i16>, bb: Option<i16>| crate::cl::longest_back(0, a.map(|x| (0, x)), bb.map(|x| (0, x)));
        run(check("zip_longest", b.fin(), &[vec![]], &[vec![vec![lb(Some(0), Some(0)), lb(Some(1), Some(1)), lb(None, Some(2))]]], Cmp::Seq))?;
    }
    for (op, want) in [(Op::Chain, vec![1i16, 2, 3, 4]), (Op::ChainFirstN { n: 3 }, vec![1, 2, 3])] {
        let mut b = B::default();
        let l = b.iter(&v(&[1, 2]));
        let r = b.iter(&v(&[3, 4]));
        let z = b.op(op, &[l, r]);
        b.sink(z, Order::Seq);
        run(check("chain", b.fin(), &[vec![]], &[vec![v(&want)]], Cmp::Seq))?;
    }
    // cross_singleton.rs: [1,2,3] x [0] -> (1,0),(2,0),(3,0); nothing if the singleton side is empty
    {
        let mut b = B::default();
        let l = b.src();
        let r = b.src();
        let z = b.op(Op::CrossSingleton { f: 1 }, &[l, r]);
        b.sink(z, Order::Seq);
        let pb = |a: i16| crate::cl::pair_back(1, (0, a), (0, 0));
        run(check("cross_singleton", b.fin(), &[vec![v(&[1, 2, 3]), v(&[0])], vec![v(&[1]), vec![]]], &[vec![vec![pb(1), pb(2), pb(3)]], vec![vec![]]], Cmp::Seq))?;
    }
    // defer_signal.rs: data is held until anything arrives on signal; order preserved
    {
        let mut b = B::default();
        let l = b.src();
        let r = b.src();
        let z = b.op(Op::DeferSignal, &[l, r]);
        b.sink(z, Order::Seq);
        run(check("defer_signal", b.fin(), &[vec![v(&[1, 2]), vec![]], vec![v(&[3]), v(&[0, 0])], vec![vec![], v(&[0])]], &[vec![vec![]], vec![v(&[1, 2, 3])], vec![vec![]]], Cmp::Seq))?;
    }
    // surface_loop.rs test_nested_loop_defer_tick: 1 -> 10 -> 100 generalised to the decay closure
    // (8 -> 4 -> 2 -> 1 -> 0), all within one tick; nothing on a tick without input
    {
        let mut b = B::default();
        let s = b.src();
        let root = b.enter(None);
        let ba = b.op(Op::Batch, &[s]);
        let rd = b.op(Op::Identity, &[ba]);
        let _inner = b.enter(Some(root));
        let e = b.op(Op::Batch, &[rd]);
        let u = b.op(Op::Union, &[e, Src { node: usize::MAX, port: 0 }]);
        let t = b.op(Op::Tee, &[u]);
        b.sink(t, Order::Bag);
        let d = b.op(Op::Decay, &[B::port(t, 1)]);
        let df = b.op(Op::DeferTick, &[d]);
        b.nodes[u.node].ins[1] = df;
        run(check("nested loop defer_tick", b.fin(), &[vec![v(&[8])], vec![vec![]], vec![v(&[3])]], &[vec![v(&[8, 4, 2, 1, 0])], vec![vec![]], vec![v(&[3, 1, 0])]], Cmp::Bag))?;
    }
    // surface_loop.rs test_root_loop_defer_tick: in a root-level loop the deferred data arrives in the next tick
    {
        let mut b = B::default();
        let s = b.src();
        let _root = b.enter(None);
        let e = b.op(Op::Batch, &[s]);
        let u = b.op(Op::Union, &[e, Src { node: usize::MAX, port: 0 }]);
        let t = b.op(Op::Tee, &[u]);
        b.sink(t, Order::Bag);
        let d = b.op(Op::Decay, &[B::port(t, 1)]);
        let df = b.op(Op::DeferTick, &[d]);
        b.nodes[u.node].ins[1] = df;
        run(check("root loop defer_tick", b.fin(), &[vec![v(&[2])], vec![vec![]], vec![vec![]], vec![vec![]]], &[vec![v(&[2])], vec![v(&[1])], vec![v(&[0])], vec![vec![]]], Cmp::Bag))?;
    }
    // surface_loop.rs test_batch_lazy: lazy data alone does not fire the loop and is dropped
    {
        let mut b = B::default();
        let trig = b.src();
        let lazy = b.src();
        let _root = b.enter(None);
        let e0 = b.op(Op::Batch, &[trig]);
        let e1 = b.op(Op::BatchLazy, &[lazy]);
        let u = b.op(Op::Union, &[e0, e1]);
        b.sink(u, Order::Bag);
        run(check(
            "batch_lazy",
            b.fin(),
            &[vec![vec![], v(&[100])], vec![v(&[1]), v(&[200])], vec![v(&[2]), vec![]], vec![vec![], v(&[300])]],
            &[vec![vec![]], vec![v(&[1, 200])], vec![v(&[2])], vec![vec![]]],
            Cmp::Bag,
        ))?;
    }
    // surface_loop.rs test_root_loop_defer_tick_lazy
    {
        let mut b = B::default();
        let s = b.src();
        let _root = b.enter(None);
        let e = b.op(Op::Batch, &[s]);
        let u = b.op(Op::Union, &[e, Src { node: usize::MAX, port: 0 }]);
        let t = b.op(Op::Tee, &[u]);
        b.sink(t, Order::Bag);
        let d = b.op(Op::Decay, &[B::port(t, 1)]);
        let df = b.op(Op::DeferTickLazy, &[d]);
        b.nodes[u.node].ins[1] = df;
        run(check("root loop defer_tick_lazy", b.fin(), &[vec![v(&[4])], vec![vec![]], vec![v(&[9])]], &[vec![v(&[4])], vec![vec![]], vec![v(&[9, 2])]], Cmp::Bag))?;
    }
    let _ = Cmp::Set;
    Ok(n)
}
