//! e3_core — shared by the `e3_ticksim` host (generator, pre-check, crate writer) and by the
//! generated crates (closure library, interpreter, driver, comparison).
pub mod ast;
pub mod cl;
pub mod docex;
pub mod drive;
pub mod emit;
pub mod interp;
pub mod pgen;
pub mod variants;
pub mod watch;
pub mod precheck;
pub mod rustc_leg;
