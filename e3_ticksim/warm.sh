#!/bin/bash
# /verif/e3_ticksim/warm.sh — setup step for E3: builds the host engine and the generated quick-tier
# program crates of C21–C26 (seed = VERIF_SEED or 1) by running each check with a handful of runs in a
# scratch VERIF_DIR (so no evidence/replay file of the real tree is touched). Idempotent; offline.
set -u
cd "$(dirname "$0")"
export CARGO_NET_OFFLINE=true
real="$(cd .. && pwd)"
cargo build --release --offline -p e3_ticksim || exit 2
scratch="$(mktemp -d /var/tmp/verif-scratch-e3-warm-XXXXXX)"
mkdir -p "$scratch/evidence" "$scratch/replays"
cp "$real/known_findings.json" "$scratch/" 2>/dev/null
for id in C21 C22 C23 C24 C25 C26; do
  echo "== warming $id"
  (cd "$real" && VERIF_DIR="$scratch" ./e3_ticksim/target/release/e3_ticksim "$id" --tier quick --runs 64 --no-selftest >/dev/null 2>&1) \
    || echo "(warm run of $id exited $?; ignored: warming only)"
done
rm -rf "$scratch"
echo "e3 warm ok"
exit 0
