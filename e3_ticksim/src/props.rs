//! Per-property texts for the evidence files.

pub struct Meta {
    pub rule: &'static str,
    pub real: &'static [&'static str],
    pub stubs: &'static [&'static str],
    pub assumptions: &'static [&'static str],
    pub required_probes: &'static [&'static str],
}

const REAL: &[&str] = &[
    "dfir_macro/dfir_lang: parser, flat graph builder, partitioner (pull/push colouring, handoff insertion, subgraph toposort), code generator, every operator's write_fn — executed by rustc through dfir_syntax! on every generated program",
    "dfir_rs runtime: scheduled::context::{Dfir, Context} (run_tick_sync, run_available_sync, current_tick, schedule_subgraph, __end_tick), dfir_pipes pull/push combinators, source_stream over dfir_rs::util::unbounded_channel",
];
const STUBS: &[&str] = &[
    "external producers: the simulator sends the scheduled items into the unbounded channels between driver calls",
    "output sinks: for_each closures appending (sink, current_tick, item) to a per-run log",
    "user closures: a closure library (e3_core::cl) shared by the compiled programs and the reference interpreter",
    "oracle: reference interpreter (e3_core::interp) evaluating the program AST tick by tick on plain vectors; knows nothing about subgraphs, handoffs, colouring or scheduling",
];
const ASSUME: &[&str] = &[
    "sampled programs and sampled schedules; nothing is enumerated exhaustively",
    "program space = what the generator's typed grammar expresses: one item type (u8 key, i16 val), operator results mapped back to it by fixed adapter maps; operators doing real I/O or wall-clock time (source_file, source_stdin, source_interval, dest_file, source_json, dest_sink) and the async resolve_futures* family are not generated",
    "the reference interpreter is trusted base; its per-operator semantics are taken from the operator documentation and validated against the documentation examples (e3_ticksim --doc-examples, run by every check); order is only compared where DFIR documents it (Seq/Bag tag per stream), otherwise per-tick multisets are compared",
    "external wake-ups *during* a tick are not simulated here (C27); items are sent between driver calls only",
    "a run_available_sync step that would need more than 10 ticks according to the interpreter is driven as a single run_tick_sync instead; a watchdog sink stops a compiled program that keeps ticking beyond the prediction",
];

pub fn meta(prop: &str) -> Meta {
    let rule = match prop {
        "C21" => "each scenario is one generated DFIR program (3-14 operators over the catalogue, random persistence per input, 1-3 external inputs, 1-3 sinks) compiled by rustc; each run draws an arrival schedule (1-7 driver steps; per step which items of which input have arrived, silent channels, starved channel, bursts, run_tick_sync vs run_available_sync), executes the compiled program and compares every sink's per-tick output with the reference interpreter. Distinct = distinct hash of (program, realised decision trace); non-trivial = at least one item reached a sink AND at least one non-benign schedule decision (empty tick, burst, starved channel, run_available step) fired.",
        _ => "each scenario is one generated DFIR program compiled by rustc; each run draws an arrival schedule and compares the compiled program's per-tick sink outputs and tick counts with the reference interpreter. Distinct = distinct hash of (program, realised decision trace); non-trivial = at least one item reached a sink AND at least one non-benign schedule decision fired.",
    };
    Meta { rule, real: REAL, stubs: STUBS, assumptions: ASSUME, required_probes: &[] }
}
