//! Per-property texts for the evidence files.

pub struct Meta {
    pub rule: &'static str,
    pub real: &'static [&'static str],
    pub stubs: &'static [&'static str],
    pub assumptions: &'static [&'static str],
    pub required_probes: &'static [&'static str],
}

const REAL: &[&str] = &[
    "dfir_macro/dfir_lang: parser, flat graph builder, partitioner (pull/push colouring, handoff insertion, subgraph toposort), code generator, every operator's write_fn — executed by rustc through dfir_syntax! on every generated program",
    "dfir_rs runtime: scheduled::context::{Dfir, Context} (run_tick_sync, run_available_sync, current_tick, schedule_subgraph, __end_tick), dfir_pipes pull/push combinators, source_stream over dfir_rs::util::unbounded_channel",
];
const STUBS: &[&str] = &[
    "external producers: the simulator sends the scheduled items into the unbounded channels between driver calls",
    "output sinks: for_each closures appending (sink, current_tick, item) to a per-run log",
    "user closures: a closure library (e3_core::cl) shared by the compiled programs and the reference interpreter",
    "oracle: reference interpreter (e3_core::interp) evaluating the program AST tick by tick on plain vectors; knows nothing about subgraphs, handoffs, colouring or scheduling",
];
const ASSUME: &[&str] = &[
    "sampled programs and sampled schedules; nothing is enumerated exhaustively",
    "program space = what the generator's typed grammar expresses: one item type (u8 key, i16 val), operator results mapped back to it by fixed adapter maps; operators doing real I/O or wall-clock time (source_file, source_stdin, source_interval, dest_file, source_json, dest_sink) and the async resolve_futures* family are not generated",
    "the reference interpreter is trusted base; its per-operator semantics are taken from the operator documentation and validated against the documentation examples (e3_ticksim --doc-examples, run by every check); order is only compared where DFIR documents it (Seq/Bag tag per stream), otherwise per-tick multisets are compared",
    "external wake-ups *during* a tick are not simulated here (C27); items are sent between driver calls only",
    "a run_available_sync step that would need more than 10 ticks according to the interpreter is driven as a single run_tick_sync instead; a watchdog sink stops a compiled program that keeps ticking beyond the prediction",
];

pub fn meta(prop: &str) -> Meta {
    const SCHED: &str = " Each run draws an arrival schedule (1-7 driver steps; per step which items of which external input have arrived, silent channels, one starved channel, bursts, `run_tick_sync` vs `run_available_sync`), executes the compiled program(s) and compares, per tick and per sink, with the reference interpreter (sequence equality where DFIR specifies the order, multiset equality otherwise), plus the tick counter after every driver call and a per-tick watchdog clock. Distinct = distinct hash of (program, realised decision trace); non-trivial = at least one item reached a sink AND at least one non-benign schedule decision (empty tick, burst, starved channel, run_available step) fired.";
    let (head, probes): (&str, &'static [&'static str]) = match prop {
        "C21" => (
            "Each scenario is one generated DFIR program (3-14 operators drawn from the whole catalogue: map/filter/filter_map/flat_map/flatten/inspect/identity, persist, unique, multiset_delta, sort, sort_by_key, enumerate, fold, reduce, fold_no_replay, reduce_no_replay, fold_keyed, reduce_keyed, scan, defer_tick, defer_tick_lazy, union, chain, chain_first_n, join, join_multiset, cross_join, cross_join_multiset, anti_join, difference, zip, zip_longest, cross_singleton, defer_signal, tee, partition, demux_enum, unzip; every legal 'tick/'static combination per input; 1-3 external inputs, 0-1 source_iter, 1-3 sinks), compiled by rustc.",
            &["static_state_kept", "defer_delivered"],
        ),
        "C22" => (
            "Each scenario is one generated DFIR program plus 2-3 semantics-preserving shape variants of it (extra identity()/map(|x| x), single-input union(), single-output tee(), union with an empty null() input, tee with a leg into null(), shuffled statement order), all compiled into the same binary and driven with the same recorded schedule; every variant must agree with the reference interpreter (hence pairwise). All variants are first compiled with the dfir_lang pipeline as a library: either all are accepted or all rejected (a split is a scenario of its own that re-runs the pipeline). A second, rustc-level leg: for 7 fixed variant families (multiset_delta, unique, sort_by_key, fold_keyed, persist, enumerate realised pull-side / push-side behind a 2-output tee / behind a union / behind an identity; two `#mut` reference holders in one vs. separate subgraphs) every variant is a tiny crate of its own and `cargo check --keep-going` must accept all variants of a family or none (class compile_split/rustc/<family>).",
            &["static_state_kept", "rustc_family_all_compile"],
        ),
        "C23" => (
            "Each scenario is one generated DFIR program built around a blocking consumer (anti_join neg, difference neg, fold, reduce, sort, persist, zip, cross_singleton over a fold, a `#singleton` reference to a fold, join, fold_keyed) whose blocking input is produced by a random same-tick pipeline of depth 1-6 (maps, filters, unions with other sources, tees, nested blocking operators).",
            &["static_state_kept"],
        ),
        "C24" => (
            "Each scenario is one generated DFIR program: a chain of 1-4 defer_tick()/defer_tick_lazy() mixed with stateless and stateful ('tick / 'static) operators and observation sinks, in 2 of 5 programs closed into a decaying feedback cycle through a deferred edge. Steps driven by run_available_sync must execute exactly the predicted number of ticks: another tick while a non-lazy deferred buffer is non-empty at the end of a tick, none for lazy-only data.",
            &["avail_extra_ticks", "avail_stopped_with_lazy_pending", "defer_delivered", "lazy_defer_delivered"],
        ),
        "C25" => (
            "Each scenario is one generated DFIR program with 1-2 shared states held by a handoff (fold -> singleton(), reduce -> optional(), handoff()) produced by a same-tick pipeline of depth 0-3, and 2-4 access groups per state of closures reading (`#{g} name`) or updating (`#{g} mut name`) it, declared in shuffled textual order; every closure logs (group, item, value seen). Oracle: the log of a tick is grouped in access-group order, every closure saw the value the interpreter predicts (producer settled, all earlier groups applied), and the sinks agree.",
            &["ref_write"],
        ),
        "C26" => (
            "Each scenario is one DFIR program instantiated from a parametrised loop template (root-level loop gating on batch(); two independent root-level loops; batch() + batch_lazy() entries; root-level loop with a defer_tick/defer_tick_lazy feedback edge; nested loop with a decaying defer_tick feedback — the documented 1 -> 10 -> 100 pattern generalised — leaving through sinks or all_iterations(); lazy entries of nested loops), with random stateless operators, fan-in and exits. Per-tick sink outputs are compared as multisets (the documentation leaves the split of a batch over iterations open).",
            &["nested_loop_iterated", "root_loop_not_fired", "root_loop_fired"],
        ),
        _ => ("", &[]),
    };
    let rule: &'static str = Box::leak(format!("{head}{SCHED}").into_boxed_str());
    Meta { rule, real: REAL, stubs: STUBS, assumptions: ASSUME, required_probes: probes }
}
