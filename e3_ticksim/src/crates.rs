//! Writing the corpus into generated crates and building them.
//!
//! Layout: `<verif>/e3_ticksim/target/gen/<PROP>/` is a cargo workspace of library crates
//! `e3g_<content hash>` (a few programs each — rustc runs in parallel over the crates) and one
//! binary crate `e3b_<prop>_<content hash>` that links them with `simcore::runner`. The workspace
//! shares the target directory of the `e3_ticksim` workspace, so `dfir_rs` and friends are built
//! once; crate names carry the content hash, so an unchanged (seed, tier) is a cargo no-op while a
//! change in /repo rebuilds everything through the path dependencies.

use std::collections::BTreeSet;
use std::fmt::Write as _;
use std::path::{Path, PathBuf};
use std::process::Command;

use e3_core::emit;
use simcore::fnv_str;

use crate::corpus::{Corpus, Entry};

// NOTE: `tools/mutant_run.sh` rewrites these two prefixes to the scratch copies.
const REPO: &str = "/repo/";
fn verif_dir() -> PathBuf {
    simcore::runner::verif_dir()
}
fn e3_dir() -> PathBuf {
    verif_dir().join("e3_ticksim")
}
fn target_dir() -> PathBuf {
    e3_dir().join("target")
}

fn raw_str(s: &str) -> String {
    format!("r########\"{s}\"########")
}

/// Source of one program module.
fn program_module(e: &Entry) -> String {
    let mut s = String::new();
    s.push_str(emit::MODULE_PRELUDE);
    s.push_str("use e3_core::drive::{Compiled, ExecFn, run_program};\nuse simcore::{Outcome, Sim};\nuse std::sync::LazyLock;\n\n");
    let _ = writeln!(s, "static C: LazyLock<Compiled> = LazyLock::new(|| Compiled::from_json({:?}, &[", e.name);
    for (vn, p) in &e.variants {
        let _ = writeln!(s, "    ({:?}, {}),", vn, raw_str(&p.to_json()));
    }
    s.push_str("]));\n\n");
    if let Some(split) = &e.compile_split {
        let _ = writeln!(
            s,
            "// dfir_lang accepts some variants of this program and rejects others:\n// {}\npub fn run(sim: &mut Sim) -> Outcome {{ e3_core::drive::run_compile_split(sim, &C) }}",
            split.replace('\n', "\n// ")
        );
        return s;
    }
    for (vi, (_vn, p)) in e.variants.iter().enumerate() {
        s.push_str(&emit::build_fn(&format!("v{vi}"), p));
        s.push('\n');
    }
    s.push_str("pub fn run(sim: &mut Sim) -> Outcome {\n    const V: &[(&str, ExecFn)] = &[");
    for (vi, (vn, _)) in e.variants.iter().enumerate() {
        let _ = write!(s, "({vn:?}, exec_v{vi} as ExecFn), ");
    }
    s.push_str("];\n    run_program(sim, &C, V)\n}\n");
    s
}

struct LibCrate {
    name: String,
    files: Vec<(String, String)>,
    scenarios: Vec<String>,
}

fn lib_crates(corp: &Corpus, skip: &BTreeSet<String>) -> Vec<LibCrate> {
    let entries: Vec<&Entry> = corp.entries.iter().filter(|e| !skip.contains(&e.name)).collect();
    let per = if entries.len() <= 64 { entries.len().div_ceil(16).max(1) } else { entries.len().div_ceil(32) };
    let mut out = vec![];
    for chunk in entries.chunks(per.max(1)) {
        let mut files = vec![];
        let mut librs = String::from("use simcore::runner::Scenario;\n");
        let mut scen = String::from("pub fn scenarios() -> Vec<Scenario> {\n    vec![\n");
        let mut h = 0xcbf2_9ce4_8422_2325u64;
        let mut names = vec![];
        for e in chunk {
            let src = program_module(e);
            h = (h ^ fnv_str(&src)).wrapping_mul(0x0000_0100_0000_01B3) ^ fnv_str(&e.name);
            let _ = writeln!(librs, "mod {};", e.name);
            let _ = writeln!(scen, "        Scenario {{ name: {:?}, weight: 1, run: {}::run }},", e.name, e.name);
            files.push((format!("src/{}.rs", e.name), src));
            names.push(e.name.clone());
        }
        scen.push_str("    ]\n}\n");
        librs.push_str(&scen);
        files.push(("src/lib.rs".into(), librs));
        out.push(LibCrate { name: format!("e3g_{h:016x}"), files, scenarios: names });
    }
    out
}

fn dep_block() -> String {
    format!(
        "simcore = {{ path = \"{v}/simcore\" }}\ne3_core = {{ path = \"{v}/e3_ticksim/core\" }}\ndfir_rs = {{ path = \"{REPO}dfir_rs\", default-features = false, features = [\"macros\", \"tokio\"] }}\n",
        v = verif_dir().display()
    )
}

fn write_if_changed(path: &Path, content: &str) -> std::io::Result<()> {
    if let Ok(old) = std::fs::read_to_string(path) {
        if old == content {
            return Ok(());
        }
    }
    if let Some(d) = path.parent() {
        std::fs::create_dir_all(d)?;
    }
    std::fs::write(path, content)
}

fn json_str_list(v: &[String]) -> String {
    let mut s = String::from("&[");
    for x in v {
        let _ = write!(s, "{x:?}, ");
    }
    s.push(']');
    s
}

#[allow(clippy::type_complexity)]
fn main_rs(prop: &str, corp: &Corpus, libs: &[LibCrate], skipped_rustc: &[String], rustc_ws: &Option<(PathBuf, Vec<(String, Vec<(String, String, String)>)>)>) -> String {
    let meta = crate::props::meta(prop);
    let n_compiled: usize = libs.iter().map(|l| l.scenarios.len()).sum();
    let n_variants: usize = corp.entries.iter().map(|e| e.variants.len()).sum();
    let mut colors = String::new();
    let mut both = 0;
    for (op, (pl, ps)) in &corp.colors {
        let _ = write!(colors, "{op}:{pl}/{ps} ");
        if *pl > 0 && *ps > 0 {
            both += 1;
        }
    }
    let corpus_note = format!(
        "corpus of this run: {} programs generated from VERIF_SEED, {} rejected by the dfir_lang pre-check and skipped (not a violation: compile-time acceptance is C18/C19/C41 territory){}, {} rejected by rustc and skipped, {} compiled ({} program variants); operators compiled as pull/push (count per operator over all variants; {} operators seen in both colours): {}",
        corp.generated,
        corp.rejected.len(),
        if corp.rejected.is_empty() { String::new() } else { format!(" [{}]", corp.rejected.iter().map(|r| format!("{}: {}", r.0, r.1.chars().take(120).collect::<String>())).collect::<Vec<_>>().join("; ")) },
        skipped_rustc.len(),
        n_compiled,
        n_variants,
        both,
        colors.trim()
    );
    let mut assumptions: Vec<String> = meta.assumptions.iter().map(|s| s.to_string()).collect();
    assumptions.push(corpus_note);
    let mut s = String::new();
    s.push_str("// generated by e3_ticksim — do not edit\nuse simcore::runner::{Engine, Prop, Scenario};\n\n");
    // rustc-level compile-agreement families (C22)
    let mut fam_scen = String::new();
    if let Some((ws, fams)) = rustc_ws {
        s.push_str("use e3_core::rustc_leg::Family;\nuse std::sync::LazyLock;\n");
        for (i, (fname, vs)) in fams.iter().enumerate() {
            let _ = writeln!(s, "static FAM{i}: LazyLock<Family> = LazyLock::new(|| Family::new({fname:?}, {:?}, &[", ws.display().to_string());
            for (vn, krate, json) in vs {
                let _ = writeln!(s, "    ({vn:?}, {krate:?}, {}),", raw_str(json));
            }
            let _ = writeln!(s, "]));\nfn run_fam{i}(sim: &mut simcore::Sim) -> simcore::Outcome {{ e3_core::rustc_leg::run(sim, &FAM{i}) }}");
            let _ = writeln!(fam_scen, "    scenarios.push(Scenario {{ name: {:?}, weight: 1, run: run_fam{i} }});", format!("rustc_{fname}"));
        }
    }
    s.push_str("\nfn main() {\n    let mut scenarios: Vec<Scenario> = vec![];\n");
    for l in libs {
        let _ = writeln!(s, "    scenarios.extend({}::scenarios());", l.name);
    }
    if !fam_scen.is_empty() {
        // compiled programs get 16 x the share of runs of a compile-agreement family
        s.push_str("    for sc in scenarios.iter_mut() {\n        sc.weight = 16;\n    }\n");
        s.push_str(&fam_scen);
    }
    let runs = corp.runs_per_program * n_compiled.max(1) as u64;
    let _ = writeln!(
        s,
        "    let engine = Engine {{\n        name: \"e3_ticksim\",\n        props: vec![Prop {{\n            id: {prop:?},\n            scenarios,\n            quick_runs: {runs},\n            thorough_runs: {runs},\n            rule: {rule:?},\n            time_unit: \"ticks\",\n            real: {real},\n            stubs: {stubs},\n            assumptions: {assum},\n            required_probes: {probes},\n        }}],\n    }};\n    simcore::runner::main(engine);\n}}",
        rule = meta.rule,
        real = json_str_list(&meta.real.iter().map(|s| s.to_string()).collect::<Vec<_>>()),
        stubs = json_str_list(&meta.stubs.iter().map(|s| s.to_string()).collect::<Vec<_>>()),
        assum = json_str_list(&assumptions),
        probes = json_str_list(&meta.required_probes.iter().map(|s| s.to_string()).collect::<Vec<_>>()),
    );
    s
}

// must equal the profile of /verif/e3_ticksim/Cargo.toml, so that the dependency artefacts are shared
/// Write the workspace of the rustc-level compile-agreement leg (one tiny lib crate per variant,
/// named by content hash). Returns (workspace path, per family: (variant, crate, ast json)).
#[allow(clippy::type_complexity)]
fn write_rustc_ws(corp: &Corpus) -> Result<(PathBuf, Vec<(String, Vec<(String, String, String)>)>), String> {
    let root = target_dir().join("gen").join("C22-rustc");
    std::fs::create_dir_all(&root).map_err(|e| e.to_string())?;
    let mut fams = vec![];
    let mut members: Vec<String> = vec![];
    for (fname, variants) in &corp.rustc_families {
        let mut vs = vec![];
        for (vname, p) in variants {
            let src = format!("{}\n{}", emit::MODULE_PRELUDE, emit::build_fn("v", p));
            let krate = format!("e3r_{:016x}", fnv_str(&src) ^ fnv_str(fname).rotate_left(7) ^ fnv_str(vname).rotate_left(13));
            let dir = root.join(&krate);
            let manifest = format!("[package]\nname = \"{krate}\"\nversion = \"0.0.0\"\nedition = \"2024\"\n\n[dependencies]\n{}", dep_block());
            write_if_changed(&dir.join("Cargo.toml"), &manifest).map_err(|e| e.to_string())?;
            write_if_changed(&dir.join("src/lib.rs"), &src).map_err(|e| e.to_string())?;
            members.push(krate.clone());
            vs.push((vname.clone(), krate, p.to_json()));
        }
        fams.push((fname.clone(), vs));
    }
    let mut ws = String::from("[workspace]\nresolver = \"2\"\nmembers = [");
    for m in &members {
        let _ = write!(ws, "\"{m}\", ");
    }
    let _ = writeln!(ws, "]\n\n{PROFILE}");
    write_if_changed(&root.join("Cargo.toml"), &ws).map_err(|e| e.to_string())?;
    write_if_changed(&root.join(".cargo/config.toml"), &format!("[net]\noffline = true\n[build]\ntarget-dir = \"{}\"\n", target_dir().display())).map_err(|e| e.to_string())?;
    let _ = std::fs::copy(e3_dir().join("rust-toolchain.toml"), root.join("rust-toolchain.toml"));
    if !root.join("Cargo.lock").exists() {
        let _ = std::fs::copy(e3_dir().join("Cargo.lock"), root.join("Cargo.lock"));
    }
    if let Ok(rd) = std::fs::read_dir(&root) {
        for ent in rd.flatten() {
            let n = ent.file_name().to_string_lossy().to_string();
            if n.starts_with("e3r_") && !members.contains(&n) {
                let _ = std::fs::remove_dir_all(ent.path());
            }
        }
    }
    Ok((root, fams))
}

const PROFILE: &str = "[profile.release]\nopt-level = 2\ndebug = false\ncodegen-units = 16\nlto = \"off\"\npanic = \"unwind\"\nincremental = false\n\n[profile.release.build-override]\nopt-level = 2\ncodegen-units = 16\n";

/// Write the workspace, build it, return the path of the engine binary.
pub fn build(prop: &str, seed: u64, tier: &str, corp: &Corpus) -> Result<PathBuf, String> {
    let _ = (seed, tier);
    let root = target_dir().join("gen").join(prop);
    std::fs::create_dir_all(&root).map_err(|e| e.to_string())?;
    // two checks of the same property must not rewrite the workspace under each other
    let lock = std::fs::File::create(root.join(".lock")).map_err(|e| e.to_string())?;
    lock.lock().map_err(|e| format!("cannot lock {}: {e}", root.display()))?;
    let mut skip: BTreeSet<String> = BTreeSet::new();
    let opt = std::env::var("E3_GEN_OPT").unwrap_or_else(|_| "1".into());
    for round in 0..4 {
        let libs = lib_crates(corp, &skip);
        let rustc_ws = if corp.rustc_families.is_empty() { None } else { Some(write_rustc_ws(corp)?) };
        if libs.is_empty() && rustc_ws.is_none() {
            return Err("no program left to compile".into());
        }
        let skipped: Vec<String> = skip.iter().cloned().collect();
        let main_src = main_rs(prop, corp, &libs, &skipped, &rustc_ws);
        let mut h = fnv_str(&main_src);
        for l in &libs {
            h = (h ^ fnv_str(&l.name)).wrapping_mul(0x0000_0100_0000_01B3);
        }
        let bin_name = format!("e3b_{}_{h:016x}", prop.to_lowercase());
        // workspace manifest
        let mut ws = String::from("[workspace]\nresolver = \"2\"\nmembers = [");
        for l in &libs {
            let _ = write!(ws, "\"{}\", ", l.name);
        }
        let _ = writeln!(ws, "\"{bin_name}\"]\n\n{PROFILE}");
        for l in &libs {
            let _ = writeln!(ws, "[profile.release.package.{}]\nopt-level = {opt}\ncodegen-units = 4", l.name);
        }
        write_if_changed(&root.join("Cargo.toml"), &ws).map_err(|e| e.to_string())?;
        write_if_changed(
            &root.join(".cargo/config.toml"),
            &format!("[net]\noffline = true\n[build]\ntarget-dir = \"{}\"\n", target_dir().display()),
        )
        .map_err(|e| e.to_string())?;
        let _ = std::fs::copy(e3_dir().join("rust-toolchain.toml"), root.join("rust-toolchain.toml"));
        if !root.join("Cargo.lock").exists() {
            let _ = std::fs::copy(e3_dir().join("Cargo.lock"), root.join("Cargo.lock"));
        }
        for l in &libs {
            let dir = root.join(&l.name);
            let manifest = format!("[package]\nname = \"{}\"\nversion = \"0.0.0\"\nedition = \"2024\"\n\n[dependencies]\n{}", l.name, dep_block());
            write_if_changed(&dir.join("Cargo.toml"), &manifest).map_err(|e| e.to_string())?;
            for (f, src) in &l.files {
                write_if_changed(&dir.join(f), src).map_err(|e| e.to_string())?;
            }
        }
        let bdir = root.join(&bin_name);
        let mut manifest = format!("[package]\nname = \"{bin_name}\"\nversion = \"0.0.0\"\nedition = \"2024\"\n\n[dependencies]\nsimcore = {{ path = \"{v}/simcore\" }}\ne3_core = {{ path = \"{v}/e3_ticksim/core\" }}\n", v = verif_dir().display());
        for l in &libs {
            let _ = writeln!(manifest, "{} = {{ path = \"../{}\" }}", l.name, l.name);
        }
        write_if_changed(&bdir.join("Cargo.toml"), &manifest).map_err(|e| e.to_string())?;
        write_if_changed(&bdir.join("src/main.rs"), &main_src).map_err(|e| e.to_string())?;
        // remove stale member directories (sources only; artefacts are handled by `gc`)
        let keep: BTreeSet<String> = libs.iter().map(|l| l.name.clone()).chain([bin_name.clone()]).collect();
        if let Ok(rd) = std::fs::read_dir(&root) {
            for ent in rd.flatten() {
                let n = ent.file_name().to_string_lossy().to_string();
                if (n.starts_with("e3g_") || n.starts_with("e3b_")) && !keep.contains(&n) {
                    let _ = std::fs::remove_dir_all(ent.path());
                }
            }
        }
        let out = Command::new("cargo")
            .args(["build", "--release", "--offline", "-p", &bin_name])
            .current_dir(&root)
            .env("CARGO_NET_OFFLINE", "true")
            .output()
            .map_err(|e| format!("cannot run cargo: {e}"))?;
        if out.status.success() {
            if !skip.is_empty() {
                eprintln!("e3_ticksim: programs rejected by rustc and skipped: {skip:?}");
            }
            gc(&keep);
            return Ok(target_dir().join("release").join(&bin_name));
        }
        let err = String::from_utf8_lossy(&out.stderr).to_string();
        // which programs does rustc reject?
        let mut bad = BTreeSet::new();
        let mut in_error = false;
        for line in err.lines() {
            if line.starts_with("error") {
                in_error = true;
            } else if line.starts_with("warning") {
                in_error = false;
            }
            if !in_error {
                continue;
            }
            if let Some(pos) = line.find("/src/p") {
                let rest = &line[pos + 5..];
                let name: String = rest.chars().take_while(|c| c.is_ascii_alphanumeric()).collect();
                let is_prog = name.len() > 1 && name.starts_with('p') && name[1..].chars().all(|c| c.is_ascii_digit());
                if line.trim_start().starts_with("-->") && is_prog {
                    bad.insert(name);
                }
            }
        }
        if bad.is_empty() || round == 3 {
            let tail: Vec<&str> = err.lines().rev().take(60).collect();
            return Err(tail.into_iter().rev().collect::<Vec<_>>().join("\n"));
        }
        eprintln!("e3_ticksim: rustc rejected generated programs {bad:?} (generator bug, recorded and skipped); first lines:\n{}", err.lines().filter(|l| l.starts_with("error")).take(6).collect::<Vec<_>>().join("\n"));
        skip.extend(bad);
    }
    Err("too many build rounds".into())
}

/// Bound the number of stale generated artefacts in the shared target directory.
fn gc(keep: &BTreeSet<String>) {
    let rel = target_dir().join("release");
    let mut stale: Vec<PathBuf> = vec![];
    for sub in ["deps", ".fingerprint", ""] {
        let d = if sub.is_empty() { rel.clone() } else { rel.join(sub) };
        let Ok(rd) = std::fs::read_dir(&d) else { continue };
        for ent in rd.flatten() {
            let n = ent.file_name().to_string_lossy().to_string();
            let stem = n.trim_start_matches("lib");
            if !(stem.starts_with("e3g_") || stem.starts_with("e3b_")) {
                continue;
            }
            if keep.iter().any(|k| stem.starts_with(k.as_str())) {
                continue;
            }
            let old = ent.metadata().and_then(|m| m.modified()).ok().and_then(|t| t.elapsed().ok()).map(|e| e.as_secs() > 6 * 3600).unwrap_or(false);
            if old {
                stale.push(ent.path());
            }
        }
    }
    if stale.len() > 300 {
        for p in stale {
            let _ = if p.is_dir() { std::fs::remove_dir_all(&p) } else { std::fs::remove_file(&p) };
        }
    }
}
