//! E3 `e3_ticksim` host: generates the DFIR program corpus for (property, VERIF_SEED, tier),
//! pre-checks every program with the dfir_lang pipeline, writes the programs into generated
//! crates (path-depending on /repo/dfir_rs), builds them with cargo (parallel rustc, cached by
//! content hash) and then `exec`s the generated engine binary, which links `simcore::runner`
//! (CLI, sharding, determinism self-test, minimisation, replay files, fresh-process confirmation,
//! evidence) and registers every compiled program as a scenario.
//!
//! `e3_ticksim <ID> [--tier quick|thorough] [--replay file] [--seed S] [--runs N] ...`

mod corpus;
mod crates;
mod props;

use std::path::PathBuf;
use std::process::Command;

fn main() {
    let argv: Vec<String> = std::env::args().skip(1).collect();
    let mut prop = String::new();
    let mut tier = std::env::var("VERIF_TIER").ok().filter(|s| !s.is_empty()).unwrap_or_else(|| "quick".into());
    let mut seed: u64 = std::env::var("VERIF_SEED").ok().and_then(|s| s.trim().parse().ok()).unwrap_or(1);
    let mut replay: Option<PathBuf> = None;
    let mut programs: Option<usize> = std::env::var("E3_PROGRAMS").ok().and_then(|s| s.parse().ok());
    let mut pass: Vec<String> = vec![];
    let mut dump = false;
    let mut trace = false;
    let mut mermaid = false;
    let mut only: Option<Vec<String>> = None;
    let mut it = argv.iter();
    while let Some(a) = it.next() {
        match a.as_str() {
            "--tier" => {
                tier = it.next().cloned().unwrap_or_default();
                pass.push("--tier".into());
                pass.push(tier.clone());
            }
            "--seed" => {
                seed = it.next().and_then(|s| s.parse().ok()).unwrap_or(1);
            }
            "--replay" => {
                replay = it.next().map(PathBuf::from);
            }
            "--programs" => programs = it.next().and_then(|s| s.parse().ok()),
            "--dump" => dump = true,
            "--trace" => trace = true,
            "--mermaid" => {
                dump = true;
                mermaid = true;
            }
            "--only" => only = it.next().map(|s| s.split(',').map(|x| x.to_string()).collect()),
            s if !s.starts_with("--") && prop.is_empty() => prop = s.to_string(),
            s => {
                pass.push(s.to_string());
                // flags with a value
                if matches!(s, "--runs" | "--threads" | "--hashes") {
                    if let Some(v) = it.next() {
                        pass.push(v.clone());
                    }
                }
            }
        }
    }
    if !corpus::PROPS.contains(&prop.as_str()) {
        eprintln!("HARNESS: e3_ticksim does not serve property '{prop}' (serves {:?})", corpus::PROPS);
        std::process::exit(2);
    }
    if tier != "quick" && tier != "thorough" {
        eprintln!("HARNESS: bad tier {tier}");
        std::process::exit(2);
    }
    // the reference interpreter must agree with the operator documentation before it is trusted
    match e3_core::docex::check_doc_examples() {
        Ok(n) => eprintln!("e3_ticksim: reference interpreter reproduces {n} documentation examples"),
        Err(e) => {
            eprintln!("HARNESS: the reference interpreter contradicts the operator documentation: {e}");
            std::process::exit(2);
        }
    }
    if let (Some(path), true) = (&replay, trace) {
        // debugging aid: per-node outputs of the reference interpreter for a replay file
        let corp = corpus::from_replay(&prop, path).unwrap_or_else(|e| {
            eprintln!("HARNESS: {e}");
            std::process::exit(2)
        });
        let prog = &corp.entries[0].variants[0].1;
        let (_, vals, _) = simcore::runner::read_replay(path);
        let mut sim = simcore::Sim::replay(vals);
        let mut plan = e3_core::drive::draw_plan(&mut sim, prog.n_chans);
        let _ = e3_core::drive::predict(prog, &mut plan);
        let mut it = e3_core::interp::Interp::new(prog);
        it.trace = Some(vec![]);
        for st in &plan.steps {
            println!("step arrivals {:?} avail={}", st.arrivals, st.avail);
            let o = it.run_tick(&st.arrivals);
            for l in it.trace.as_mut().unwrap().drain(..) {
                println!("  {l}");
            }
            println!("  => sinks {:?}", o.sinks);
        }
        return;
    }
    let t0 = std::time::Instant::now();
    let corp = match &replay {
        Some(path) => match corpus::from_replay(&prop, path) {
            Ok(c) => c,
            Err(e) => {
                eprintln!("HARNESS: cannot rebuild the program from replay file {}: {e}", path.display());
                std::process::exit(2);
            }
        },
        None => corpus::generate(&prop, seed, &tier, programs),
    };
    let mut corp = corp;
    if let Some(only) = &only {
        corp.entries.retain(|e| only.contains(&e.name));
    }
    if dump {
        for e in &corp.entries {
            println!("=== {} ===", e.name);
            for (vn, v) in &e.variants {
                println!("--- variant {vn}\n{}", e3_core::emit::dfir_text(v));
                if mermaid {
                    println!("{}", e3_core::precheck::mermaid(&e3_core::emit::dfir_text(v)).unwrap_or_else(|e| e));
                }
            }
        }
        for (f, vs) in &corp.rustc_families {
            println!("=== rustc family {f} ===");
            for (vn, v) in vs {
                println!("--- variant {vn}\n{}", e3_core::emit::dfir_text(v));
                if mermaid {
                    println!("{}", e3_core::precheck::mermaid(&e3_core::emit::dfir_text(v)).unwrap_or_else(|e| e));
                }
            }
        }
        println!("rejected: {:?}", corp.rejected);
        return;
    }
    eprintln!(
        "e3_ticksim: property={prop} seed={seed} tier={tier}: {} programs ({} variants in total), {} rejected by dfir_lang, generated+prechecked in {:.1}s",
        corp.entries.len(),
        corp.entries.iter().map(|e| e.variants.len()).sum::<usize>(),
        corp.rejected.len(),
        t0.elapsed().as_secs_f64()
    );
    let t1 = std::time::Instant::now();
    let bin = match crates::build(&prop, seed, &tier, &corp) {
        Ok(b) => b,
        Err(e) => {
            eprintln!("HARNESS: building the generated crates failed (harness/build error, not a violation):\n{e}");
            std::process::exit(2);
        }
    };
    eprintln!("e3_ticksim: generated crates built in {:.1}s -> {}", t1.elapsed().as_secs_f64(), bin.display());
    let mut cmd = Command::new(&bin);
    cmd.arg(&prop).args(&pass).arg("--seed").arg(seed.to_string());
    if let Some(r) = &replay {
        cmd.arg("--replay").arg(r);
    }
    use std::os::unix::process::CommandExt;
    let err = cmd.exec();
    eprintln!("HARNESS: cannot exec {}: {err}", bin.display());
    std::process::exit(2);
}
