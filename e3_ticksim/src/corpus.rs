//! The program corpus of one (property, seed, tier): generation, shape variants, dfir_lang
//! pre-check, bookkeeping for the evidence.

use std::collections::BTreeMap;
use std::path::Path;

use e3_core::ast::Program;
use e3_core::emit::dfir_text;
use e3_core::precheck::precheck;
use e3_core::variants;
use simcore::{Sim, fnv_str, mix};

pub const PROPS: &[&str] = &["C21", "C22", "C23", "C24", "C25", "C26"];

pub struct Entry {
    /// scenario name, `p<index>`
    pub name: String,
    /// (variant name, program); variant 0 is the base program
    pub variants: Vec<(String, Program)>,
    /// C22: some variants are accepted by dfir_lang and some are rejected. The entry is then not
    /// compiled by rustc; its scenario re-runs the pre-check and reports the split.
    pub compile_split: Option<String>,
}

pub struct Corpus {
    pub prop: String,
    pub entries: Vec<Entry>,
    /// (name, reason): programs the generator considered valid but dfir_lang rejected
    pub rejected: Vec<(String, String)>,
    /// operator -> (compiled as pull, compiled as push) over all compiled variants
    pub colors: BTreeMap<String, (u32, u32)>,
    /// C22 only: variant families of the rustc-level compile-agreement leg
    pub rustc_families: Vec<(String, Vec<(String, Program)>)>,
    pub generated: usize,
    pub runs_per_program: u64,
    /// programs regenerated because rustc cannot type them (see `unsupported_shape`)
    pub regenerated: usize,
    pub variants_dropped: usize,
}

pub fn n_programs(prop: &str, tier: &str) -> usize {
    // C22 compiles 3-4 variants per program
    match (prop, tier) {
        ("C22", "thorough") => 96,
        ("C22", _) => 32,
        (_, "thorough") => 192,
        _ => 48,
    }
}
pub fn runs_per_program(prop: &str, tier: &str) -> u64 {
    match (prop, tier) {
        ("C22", "thorough") => 20_000,
        ("C22", _) => 3_000,
        (_, "thorough") => 20_000,
        _ => 2_000,
    }
}

/// Generate program `idx` of the corpus of `prop` for `seed` (independent of the tier, so that the
/// quick corpus is a prefix of the thorough one and `p<idx>` names a program given the seed).
pub fn gen_entry(prop: &str, seed: u64, idx: usize, attempt: u64) -> Vec<(String, Program)> {
    let mut sim = Sim::seeded(mix(&[seed, fnv_str("e3_ticksim/corpus"), fnv_str(prop), idx as u64, attempt]));
    match prop {
        // systematic slice: every stateful operator x persistence on the push AND the pull side
        "C21" if idx % 6 == 2 => vec![("base".to_string(), e3_core::pgen::gen_both_sides(&mut sim, idx / 6, 3))],
        "C22" if idx % 4 == 2 => {
            let base = e3_core::pgen::gen_both_sides(&mut sim, idx / 4, 3);
            let mut v = vec![("base".to_string(), base.clone())];
            for k in 0..2 {
                let (name, p) = variants::variant(&base, &mut sim, k);
                v.push((name, p));
            }
            v
        }
        // 1 program in 8 of the C22 corpus: *_no_replay operators pull- vs push-side, compared pairwise
        "C22" if idx % 8 == 5 => e3_core::pgen::gen_no_replay_pair(&mut sim, (idx / 8) % 2 == 0),
        "C22" => {
            let base = e3_core::pgen::gen_free(&mut sim, &e3_core::pgen::GenCfg::free());
            let mut v = vec![("base".to_string(), base.clone())];
            let nv = sim.choose("n_variants", 2, 3);
            for k in 0..nv {
                let (name, p) = variants::variant(&base, &mut sim, k as usize);
                v.push((name, p));
            }
            v
        }
        "C23" => {
            let mut p = e3_core::pgen::gen_blocking(&mut sim);
            // reference programs: vary the textual order of borrower, producer and pipe consumer
            if p.nodes.iter().any(|n| matches!(n.op, e3_core::ast::Op::RefMap { .. })) {
                let n = p.emit_order.len();
                for i in (1..n).rev() {
                    let j = sim.choose("shuffle", 0, i as u64) as usize;
                    p.emit_order.swap(i, j);
                }
                p.n_refs = p.ref_ids().len();
            }
            vec![("base".to_string(), p)]
        }
        "C24" => vec![("base".to_string(), e3_core::pgen::gen_defer(&mut sim))],
        "C25" => {
            // reference programs: the textual order of the statements is irrelevant (access groups
            // are ordered by number), so it is shuffled
            let shared = sim.flip("shared_consumer", 1, 8);
            let mut p = e3_core::pgen::gen_refs(&mut sim, shared);
            let n = p.emit_order.len();
            for i in (1..n).rev() {
                let j = sim.choose("shuffle", 0, i as u64) as usize;
                p.emit_order.swap(i, j);
            }
            vec![("base".to_string(), p)]
        }
        "C26" => vec![("base".to_string(), e3_core::pgen::gen_loops(&mut sim))],
        _ => {
            let base = e3_core::pgen::gen_free(&mut sim, &e3_core::pgen::GenCfg::free());
            vec![("base".to_string(), base)]
        }
    }
}

pub fn generate(prop: &str, seed: u64, tier: &str, programs: Option<usize>) -> Corpus {
    let n = programs.unwrap_or_else(|| n_programs(prop, tier));
    let mut c = Corpus {
        prop: prop.to_string(),
        entries: vec![],
        rejected: vec![],
        colors: BTreeMap::new(),
        rustc_families: vec![],
        generated: n,
        runs_per_program: runs_per_program(prop, tier),
        regenerated: 0,
        variants_dropped: 0,
    };
    if prop == "C22" && std::env::var("E3_NO_RUSTC_LEG").is_err() {
        let mut sim = Sim::seeded(mix(&[seed, fnv_str("e3_ticksim/rustc_families")]));
        c.rustc_families = e3_core::pgen::rustc_families(&mut sim);
        // E3_SKIP_KINDS also names families (`rustc_<family>`)
        if let Ok(s) = std::env::var("E3_SKIP_KINDS") {
            c.rustc_families.retain(|(f, _)| !s.split(',').any(|k| k == format!("rustc_{f}")));
        }
    }
    for idx in 0..n {
        // everything is a pure function of (seed, property, index[, attempt])
        let mut attempt = 0;
        loop {
            let mut vs = gen_entry(prop, seed, idx, attempt);
            // E3_SKIP_KINDS=kind[,kind]: leave out program kinds (used by sensitivity runs to keep a
            // known finding's dedicated program kind out of the way; never set by the registered checks)
            let skip_kind = std::env::var("E3_SKIP_KINDS").ok().is_some_and(|s| s.split(',').any(|k| k == vs[0].1.kind));
            if skip_kind {
                if attempt < 20 {
                    attempt += 1;
                    continue;
                }
                // the kind is forced for this index: leave the program out
                break;
            }
            // E3_INJECT_SPLIT=1 (harness self-test only, never set by the registered checks): give p0 a
            // variant that dfir_lang rejects (a same-tick cycle), to exercise the compile-split path
            if idx == 0 && std::env::var("E3_INJECT_SPLIT").is_ok() {
                let mut bad = vs[0].1.clone();
                if let Some(i) = bad.nodes.iter().position(|n| !n.ins.is_empty()) {
                    let u = bad.nodes.len();
                    let old = bad.nodes[i].ins[0];
                    bad.nodes.push(e3_core::ast::Node { op: e3_core::ast::Op::Union, ins: vec![old, e3_core::ast::Src { node: u + 1, port: 0 }] });
                    bad.nodes.push(e3_core::ast::Node { op: e3_core::ast::Op::Tee, ins: vec![e3_core::ast::Src { node: u, port: 0 }] });
                    bad.nodes[i].ins[0] = e3_core::ast::Src { node: u + 1, port: 1 };
                    bad.emit_order.push(u);
                    bad.emit_order.push(u + 1);
                    vs.push(("injected_cycle".to_string(), bad));
                }
            }
            add_entry(&mut c, format!("p{idx}"), vs);
            break;
        }
    }
    c
}

fn add_entry(c: &mut Corpus, name: String, vs: Vec<(String, Program)>) {
    let mut results = vec![];
    for (vn, p) in &vs {
        results.push((vn.clone(), precheck(&dfir_text(p))));
    }
    let n_ok = results.iter().filter(|r| r.1.is_ok()).count();
    if n_ok == vs.len() {
        for (_, r) in &results {
            if let Ok(info) = r {
                for (op, (pl, ps)) in &info.colors {
                    let e = c.colors.entry(op.clone()).or_insert((0, 0));
                    e.0 += pl;
                    e.1 += ps;
                }
            }
        }
        c.entries.push(Entry { name, variants: vs, compile_split: None });
    } else if n_ok == 0 {
        let why = results[0].1.as_ref().err().cloned().unwrap_or_default();
        c.rejected.push((name, why));
    } else {
        // compile split (C22)
        let mut msg = String::new();
        for (vn, r) in &results {
            msg.push_str(&format!("variant {vn}: {}\n", match r {
                Ok(_) => "accepted".to_string(),
                Err(e) => format!("REJECTED: {e}"),
            }));
        }
        c.entries.push(Entry { name, variants: vs, compile_split: Some(msg) });
    }
}

/// Rebuild the (single-program) corpus from a replay file: the verbose event log of the failing
/// run carries every variant's AST.
pub fn from_replay(prop: &str, path: &Path) -> Result<Corpus, String> {
    let s = std::fs::read_to_string(path).map_err(|e| e.to_string())?;
    let v: serde_json::Value = serde_json::from_str(&s).map_err(|e| e.to_string())?;
    let scenario = v["scenario"].as_str().ok_or("no scenario")?.to_string();
    let mut vs = vec![];
    for l in v["event_log"].as_array().cloned().unwrap_or_default() {
        let Some(l) = l.as_str() else { continue };
        if let Some(pos) = l.find("VARIANT ") {
            let rest = &l[pos + 8..];
            let Some((name, json)) = rest.split_once(" AST ") else { continue };
            let p = Program::from_json(json).map_err(|e| format!("bad AST in replay: {e}"))?;
            vs.push((name.to_string(), p));
        }
    }
    if vs.is_empty() {
        return Err("replay file carries no program AST".into());
    }
    let mut c = Corpus { prop: prop.to_string(), entries: vec![], rejected: vec![], colors: BTreeMap::new(), rustc_families: vec![], generated: 1, runs_per_program: 1, regenerated: 0, variants_dropped: 0 };
    if let Some(fam) = scenario.strip_prefix("rustc_") {
        // a family of the rustc-level compile-agreement leg: rebuilt from the variants' ASTs
        c.rustc_families.push((fam.to_string(), vs));
        return Ok(c);
    }
    add_entry(&mut c, scenario, vs);
    if c.entries.is_empty() {
        return Err(format!("program in replay file is rejected by dfir_lang on this tree: {:?}", c.rejected));
    }
    Ok(c)
}
