//! E1 `e1_pollsim` — poll-level simulator for C11–C16 (DESIGN.md §4 E1).
mod c16;

use simcore::runner::{Engine, Prop, Scenario};

fn main() {
    let engine = Engine {
        name: "e1_pollsim",
        props: vec![Prop {
            id: "C16",
            scenarios: vec![Scenario { name: "mpsc", weight: 1, run: c16::run }],
            quick_runs: 4_000_000,
            thorough_runs: 400_000_000,
            rule: "each run draws a channel configuration (capacity 1-3 or unbounded; 1-3 sender tasks with 1-4 uniquely numbered items each using send().await / try_send / the Sink impl; receiver via recv / poll_recv / Stream; end-of-sender by drop / close_this_sender / poll_close) and a schedule (which woken task is polled next, spurious polls of parked tasks, cancellation of pending sends, sender clone churn, receiver close()/drop after k items, self-yields). Distinct = distinct hash of the realised decision trace; non-trivial = at least one item was received AND (a fault fired OR a sender parked on a full channel).",
            time_unit: "task polls",
            real: &["dfir_rs::util::unsync::mpsc::{Sender, Receiver, Shared}: send, try_send, Sink impl, recv, poll_recv, Stream impl, close, close_this_sender, Drop impls"],
            stubs: &["sender/receiver tasks (harness async fns)", "SimExec single-threaded executor with per-task wake flags", "reference FIFO queue model"],
            assumptions: &[
                "sampled schedules, not exhaustive; capacities 1-3, at most 3 senders and 12 items",
                "quiescence (no task woken) is the lost-wake-up detector: every parked task must be unable to make progress in the model",
                "spurious polls and dropping a pending send future are legal uses of the API (join!/select! do both)",
            ],
            required_probes: &["sender_parked_on_full", "spurious_poll", "cancel_pending_send", "receiver_close", "receiver_drop", "send_rejected_after_close"],
        }],
    };
    simcore::runner::main(engine);
}
