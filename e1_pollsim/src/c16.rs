//! C16 — `dfir_rs::util::unsync::mpsc`: FIFO, lossless, closure-consistent, never strands a
//! sender (DESIGN.md §5 C16). Real code: the channel. Stubs: sender/receiver tasks, executor.

use std::cell::{Cell, RefCell};
use std::future::Future;
use std::pin::Pin;
use std::task::{Context, Poll};

use dfir_rs::util::unsync::mpsc::{self, Receiver, Sender, TrySendError};
use futures::{Sink, Stream};
use simcore::exec::{SimExec, Stop};
use simcore::{Outcome, Sim, SimCell, Violation};

/// What the harness knows about the channel (the reference queue model).
#[derive(Default)]
struct Model {
    /// items in order of successful send
    sent: Vec<u32>,
    /// items in order of receipt
    received: Vec<u32>,
    /// live (not dropped, not `close_this_sender`ed) sender handles
    live_senders: i32,
    recv_closed: bool,
    recv_dropped: bool,
    /// #items that were in `sent` when the receiver closed (those stay receivable)
    sent_at_close: usize,
    recv_saw_none: bool,
    violation: Option<Violation>,
    /// per sender task: currently parked inside a send / poll_ready that returned Pending
    sender_waiting: Vec<bool>,
    recv_waiting: bool,
}
impl Model {
    fn viol(&mut self, class: &str, detail: String) {
        if self.violation.is_none() {
            self.violation = Some(Violation::new(format!("mpsc/{class}"), detail));
        }
    }
    fn len(&self) -> usize {
        // after a receiver drop the buffer is gone; len is only used while the receiver lives
        self.sent.len() - self.received.len()
    }
}

#[derive(Clone, Copy, PartialEq, Debug)]
enum Method {
    SendAwait,
    TrySend,
    SinkApi,
}
#[derive(Clone, Copy, PartialEq, Debug)]
enum EndHow {
    Drop,
    CloseThis,
    PollClose,
}

/// Future wrapper: polls the inner future; when it is Pending the simulator may decide to cancel
/// it (the inner future is dropped, the item is then known not to have been sent).
struct Cancellable<'s, 'a, F> {
    inner: Option<Pin<Box<F>>>,
    simc: &'s SimCell<'a>,
    num: u64,
}
impl<'s, 'a, F: Future> Future for Cancellable<'s, 'a, F> {
    type Output = Option<F::Output>;
    fn poll(mut self: Pin<&mut Self>, cx: &mut Context<'_>) -> Poll<Self::Output> {
        let this = &mut *self;
        let Some(f) = this.inner.as_mut() else { return Poll::Ready(None) };
        match f.as_mut().poll(cx) {
            Poll::Ready(x) => {
                this.inner = None;
                Poll::Ready(Some(x))
            }
            Poll::Pending => {
                let cancel = this.num > 0 && this.simc.borrow_mut().flip("cancel_send", this.num, 100);
                if cancel {
                    this.simc.borrow_mut().fault("cancel_pending_send");
                    this.inner = None; // drop the pending future
                    Poll::Ready(None)
                } else {
                    Poll::Pending
                }
            }
        }
    }
}

/// Yield to the executor `n` times (wakes itself): lets other tasks interleave.
struct YieldN(u32);
impl Future for YieldN {
    type Output = ();
    fn poll(mut self: Pin<&mut Self>, cx: &mut Context<'_>) -> Poll<()> {
        if self.0 == 0 {
            Poll::Ready(())
        } else {
            self.0 -= 1;
            cx.waker().wake_by_ref();
            Poll::Pending
        }
    }
}

#[allow(clippy::too_many_arguments)]
async fn sender_task(
    idx: usize,
    mut tx: Sender<u32>,
    items: Vec<u32>,
    method: Method,
    end: EndHow,
    cancel_num: u64,
    clone_churn: bool,
    m: &RefCell<Model>,
    simc: &SimCell<'_>,
) {
    for item in items {
        let y = simc.borrow_mut().choose("sender_yield", 0, 2) as u32;
        YieldN(y).await;
        if clone_churn {
            // a short-lived clone: its drop pokes the receiver waker
            let c = tx.clone();
            m.borrow_mut().live_senders += 1;
            drop(c);
            m.borrow_mut().live_senders -= 1;
            simc.borrow_mut().probe("sender_clone_dropped");
        }
        match method {
            Method::SendAwait => {
                let mark = Marked { idx, m, inner: tx.send(item) };
                let r = Cancellable { inner: Some(Box::pin(mark)), simc, num: cancel_num }.await;
                m.borrow_mut().sender_waiting[idx] = false;
                match r {
                    Some(Ok(())) => on_sent(m, simc, idx, item),
                    Some(Err(e)) => on_rejected(m, simc, idx, item, e.0, "send"),
                    None => simc.borrow_mut().event(0x30, || format!("S{idx}: send({item}) cancelled while pending")),
                }
            }
            Method::TrySend => match tx.try_send(item) {
                Ok(()) => on_sent(m, simc, idx, item),
                Err(TrySendError::Full(x)) => {
                    let mut mm = m.borrow_mut();
                    if x != item {
                        mm.viol("wrong_item_returned", format!("try_send({item}) Full returned {x}"));
                    }
                    // Full is only legal on a bounded channel that is at capacity (checked by caller via cap)
                    mm.sender_waiting[idx] = false;
                    drop(mm);
                    simc.borrow_mut().event(0x31, || format!("S{idx}: try_send({item}) -> Full"));
                    simc.borrow_mut().probe("try_send_full");
                    FULL_SEEN.with(|f| f.set(f.get() + 1));
                }
                Err(TrySendError::Closed(x)) => on_rejected(m, simc, idx, item, x, "try_send"),
            },
            Method::SinkApi => {
                let ready = {
                    let mark = Marked {
                        idx,
                        m,
                        inner: std::future::poll_fn(|cx| Pin::new(&mut tx).poll_ready(cx)),
                    };
                    Cancellable { inner: Some(Box::pin(mark)), simc, num: cancel_num }.await
                };
                m.borrow_mut().sender_waiting[idx] = false;
                match ready {
                    None => simc.borrow_mut().event(0x32, || format!("S{idx}: poll_ready for {item} abandoned")),
                    Some(Ok(())) => match Pin::new(&mut tx).start_send(item) {
                        Ok(()) => on_sent(m, simc, idx, item),
                        Err(TrySendError::Full(_)) => m.borrow_mut().viol(
                            "full_after_ready",
                            format!("S{idx}: start_send({item}) returned Full right after poll_ready returned Ready(Ok)"),
                        ),
                        Err(TrySendError::Closed(x)) => {
                            // receiver may legitimately have gone between... no: same poll, nothing ran in between
                            on_rejected(m, simc, idx, item, x.unwrap_or(item), "start_send")
                        }
                    },
                    Some(Err(_)) => {
                        // poll_ready reports closed
                        let mut mm = m.borrow_mut();
                        if !(mm.recv_closed || mm.recv_dropped) {
                            mm.viol("closed_while_open", format!("S{idx}: poll_ready reported Closed while the receiver is open"));
                        }
                        drop(mm);
                        simc.borrow_mut().event(0x33, || format!("S{idx}: poll_ready -> Closed, {item} not sent"));
                    }
                }
            }
        }
        // closure view must be consistent at any time
        {
            let mut mm = m.borrow_mut();
            let want = mm.recv_closed || mm.recv_dropped;
            if tx.is_closed() != want {
                mm.viol("is_closed_inconsistent", format!("S{idx}: is_closed()={} but receiver closed/dropped={want}", tx.is_closed()));
            }
        }
    }
    // the handle may outlive its last send by a few scheduling steps
    let y = simc.borrow_mut().choose("end_yield", 0, 2) as u32;
    YieldN(y).await;
    // NB: the model must learn about the disappearing handle *before* the real operation runs
    m.borrow_mut().live_senders -= 1;
    match end {
        EndHow::Drop => {}
        EndHow::CloseThis => tx.close_this_sender(),
        EndHow::PollClose => {
            let r = std::future::poll_fn(|cx| Pin::new(&mut tx).poll_close(cx)).await;
            if r.is_err() {
                m.borrow_mut().viol("poll_close_err", format!("S{idx}: poll_close returned an error"));
            }
        }
    }
    simc.borrow_mut().event(0x34 + idx as u64, || format!("S{idx}: handle gone ({end:?})"));
    drop(tx);
}

thread_local! {
    static FULL_SEEN: Cell<u64> = const { Cell::new(0) };
    static PARKED_SEEN: Cell<u64> = const { Cell::new(0) };
}

/// Marks "this sender is parked inside a send" while the inner future is Pending.
struct Marked<'m, F> {
    idx: usize,
    m: &'m RefCell<Model>,
    inner: F,
}
impl<'m, F: Future> Future for Marked<'m, F> {
    type Output = F::Output;
    fn poll(self: Pin<&mut Self>, cx: &mut Context<'_>) -> Poll<F::Output> {
        // SAFETY: structural pinning of `inner`; `idx`/`m` are Unpin and never moved out.
        let this = unsafe { self.get_unchecked_mut() };
        let inner = unsafe { Pin::new_unchecked(&mut this.inner) };
        let r = inner.poll(cx);
        this.m.borrow_mut().sender_waiting[this.idx] = r.is_pending();
        if r.is_pending() {
            PARKED_SEEN.with(|f| f.set(f.get() + 1));
        }
        r
    }
}

fn on_sent(m: &RefCell<Model>, simc: &SimCell<'_>, idx: usize, item: u32) {
    let mut mm = m.borrow_mut();
    if mm.recv_closed || mm.recv_dropped {
        mm.viol("send_ok_after_close", format!("S{idx}: send of {item} returned Ok after the receiver was closed/dropped"));
    }
    mm.sent.push(item);
    drop(mm);
    simc.borrow_mut().event(0x40 + item as u64, || format!("S{idx}: sent {item}"));
}

fn on_rejected(m: &RefCell<Model>, simc: &SimCell<'_>, idx: usize, item: u32, returned: u32, how: &str) {
    let mut mm = m.borrow_mut();
    if returned != item {
        mm.viol("wrong_item_returned", format!("S{idx}: {how}({item}) failed but handed back {returned}"));
    }
    if !(mm.recv_closed || mm.recv_dropped) {
        mm.viol("closed_while_open", format!("S{idx}: {how}({item}) reported Closed while the receiver is open"));
    }
    drop(mm);
    simc.borrow_mut().event(0x38, || format!("S{idx}: {how}({item}) -> Closed (item handed back)"));
    simc.borrow_mut().probe("send_rejected_after_close");
}

#[derive(Clone, Copy, PartialEq, Debug)]
enum RecvHow {
    RecvAwait,
    PollRecv,
    StreamNext,
}

async fn receiver_task(
    mut rx: Receiver<u32>,
    how: RecvHow,
    close_after: Option<usize>,
    drop_after: Option<usize>,
    m: &RefCell<Model>,
    simc: &SimCell<'_>,
) {
    let mut n = 0usize;
    loop {
        if close_after == Some(n) && !m.borrow().recv_closed {
            {
                let mut mm = m.borrow_mut();
                mm.recv_closed = true;
                mm.sent_at_close = mm.sent.len();
            }
            simc.borrow_mut().fault("receiver_close");
            simc.borrow_mut().event(0x50, || "R: close()".to_string());
            rx.close();
        }
        if drop_after == Some(n) {
            m.borrow_mut().recv_dropped = true;
            simc.borrow_mut().fault("receiver_drop");
            simc.borrow_mut().event(0x51, || "R: dropped".to_string());
            drop(rx);
            return;
        }
        let y = simc.borrow_mut().choose("recv_yield", 0, 2) as u32;
        YieldN(y).await;
        let got = {
            let fut = RecvFut { rx: &mut rx, how, m };
            fut.await
        };
        m.borrow_mut().recv_waiting = false;
        match got {
            Some(x) => {
                let mut mm = m.borrow_mut();
                let i = mm.received.len();
                if i >= mm.sent.len() {
                    mm.viol("phantom_item", format!("R: received {x} but nothing is outstanding"));
                } else if mm.sent[i] != x {
                    let class = if mm.sent[i + 1..].contains(&x) { "fifo_or_loss" } else { "duplicate_or_phantom" };
                    let d = format!("R: received {x}, expected {} (sent order {:?}, received so far {:?})", mm.sent[i], mm.sent, mm.received);
                    mm.viol(class, d);
                }
                mm.received.push(x);
                drop(mm);
                simc.borrow_mut().event(0x60 + x as u64, || format!("R: received {x}"));
                n += 1;
            }
            None => {
                let mut mm = m.borrow_mut();
                mm.recv_saw_none = true;
                if mm.received.len() != mm.sent.len() {
                    let d = format!("R: got None with {} item(s) still unreceived (sent {:?}, received {:?})", mm.len(), mm.sent, mm.received);
                    mm.viol("none_with_items_outstanding", d);
                }
                if mm.live_senders > 0 && !mm.recv_closed {
                    let d = format!("R: got None while {} sender handle(s) are still live and the receiver was not closed", mm.live_senders);
                    mm.viol("none_while_senders_live", d);
                }
                drop(mm);
                simc.borrow_mut().event(0x52, || "R: received None (end)".to_string());
                return;
            }
        }
    }
}

struct RecvFut<'r, 'm> {
    rx: &'r mut Receiver<u32>,
    how: RecvHow,
    m: &'m RefCell<Model>,
}
impl<'r, 'm> Future for RecvFut<'r, 'm> {
    type Output = Option<u32>;
    fn poll(mut self: Pin<&mut Self>, cx: &mut Context<'_>) -> Poll<Option<u32>> {
        let this = &mut *self;
        let r = match this.how {
            RecvHow::PollRecv => this.rx.poll_recv(cx),
            RecvHow::StreamNext => Pin::new(&mut *this.rx).poll_next(cx),
            RecvHow::RecvAwait => {
                // a fresh `recv()` future per poll == cancelling and re-issuing recv, which is legal
                let mut f = Box::pin(this.rx.recv());
                f.as_mut().poll(cx)
            }
        };
        this.m.borrow_mut().recv_waiting = r.is_pending();
        r
    }
}

pub fn run(sim: &mut Sim) -> Outcome {
    FULL_SEEN.with(|f| f.set(0));
    PARKED_SEEN.with(|f| f.set(0));
    // ---- knobs (swarm style: every run draws its own configuration)
    let cap = sim.choose("cap", 0, 3) as usize; // 0 = unbounded
    let n_senders = sim.choose("senders", 1, 3) as usize;
    let spurious_pct = *sim.pick("spurious_pct", &[0u64, 0, 5, 15, 30]);
    let cancel_pct = *sim.pick("cancel_pct", &[0u64, 0, 0, 10, 30]);
    let recv_how = *sim.pick("recv_how", &[RecvHow::PollRecv, RecvHow::RecvAwait, RecvHow::StreamNext]);
    let mut specs = vec![];
    let mut next_item = 1u32;
    let mut total_items = 0usize;
    for _ in 0..n_senders {
        let n = sim.choose("items", 1, 4) as usize;
        let items: Vec<u32> = (0..n).map(|_| { let x = next_item; next_item += 1; x }).collect();
        total_items += n;
        let method = *sim.pick("method", &[Method::SendAwait, Method::SendAwait, Method::SinkApi, Method::TrySend]);
        let end = *sim.pick("end", &[EndHow::Drop, EndHow::CloseThis, EndHow::PollClose]);
        let churn = sim.flip("clone_churn", 1, 6);
        specs.push((items, method, end, churn));
    }
    let recv_fault = sim.weighted("recv_fault", &[8, 1, 1]);
    let (close_after, drop_after) = match recv_fault {
        1 => (Some(sim.choose("close_after", 0, total_items as u64) as usize), None),
        2 => (None, Some(sim.choose("drop_after", 0, total_items as u64) as usize)),
        _ => (None, None),
    };

    let (tx, rx) = if cap == 0 { mpsc::unbounded::<u32>() } else { mpsc::bounded::<u32>(cap) };
    let model = RefCell::new(Model { live_senders: n_senders as i32, sender_waiting: vec![false; n_senders], ..Default::default() });
    let simc: SimCell<'_> = RefCell::new(sim);
    let stop;
    let steps;
    {
        let mut ex = SimExec::new();
        for (i, (items, method, end, churn)) in specs.iter().cloned().enumerate() {
            ex.spawn(sender_task(i, tx.clone(), items, method, end, cancel_pct, churn, &model, &simc));
        }
        drop(tx);
        let rtask = ex.spawn(receiver_task(rx, recv_how, close_after, drop_after, &model, &simc));
        stop = ex.run(&simc, spurious_pct, 100, 4000);
        steps = ex.steps;
        // ---- quiescence oracle: nobody may be parked while progress is possible
        if stop == Stop::Quiescent {
            let mut mm = model.borrow_mut();
            let recv_gone = mm.recv_closed || mm.recv_dropped;
            for i in 0..n_senders {
                if !ex.is_done(i) && mm.sender_waiting[i] {
                    let has_room = cap == 0 || (!mm.recv_dropped && mm.len() < cap);
                    if has_room || recv_gone {
                        let d = format!(
                            "quiescent with sender S{i} parked although {} (cap {cap}, buffered {}, receiver parked: {})",
                            if recv_gone { "the receiver is closed" } else { "capacity is available" },
                            if mm.recv_dropped { 0 } else { mm.len() }, mm.recv_waiting
                        );
                        mm.viol("stranded_sender", d);
                    }
                }
            }
            if !ex.is_done(rtask) && mm.recv_waiting {
                if mm.len() > 0 {
                    let d = format!("quiescent with the receiver parked while {} item(s) are buffered", mm.len());
                    mm.viol("stranded_receiver_items", d);
                } else if mm.live_senders == 0 {
                    mm.viol("stranded_receiver_end", "quiescent with the receiver parked although every sender handle is gone".into());
                }
            }
            if mm.violation.is_none() {
                // any other quiescence with unfinished tasks: describe it (should be impossible)
                let d = format!("quiescent with unfinished tasks: waiting senders {:?}, receiver waiting {}, len {}, live senders {}", mm.sender_waiting, mm.recv_waiting, if mm.recv_dropped {0} else {mm.len()}, mm.live_senders);
                mm.viol("deadlock_other", d);
            }
        }
    }
    let sim: &mut Sim = simc.into_inner();
    let mut mm = model.into_inner();
    // ---- end-state oracle
    if stop == Stop::AllDone && mm.violation.is_none() {
        if !mm.recv_dropped {
            if !mm.recv_saw_none {
                mm.viol("receiver_finished_without_none", "receiver task ended without seeing None".into());
            } else if mm.received != mm.sent {
                let d = format!("all tasks done but received {:?} != sent {:?}", mm.received, mm.sent);
                mm.viol("lost_items", d);
            }
        }
    }
    let full = FULL_SEEN.with(|f| f.get());
    if full > 0 && cap == 0 {
        mm.viol("full_on_unbounded", "try_send returned Full on an unbounded channel".into());
    }
    if mm.recv_closed {
        sim.probe("closed_channel_drained");
    }
    if mm.sender_waiting.iter().any(|_| true) && sim.faults.iter().any(|f| f.0 == "spurious_poll") {
        sim.probe("spurious_polls_present");
    }
    sim.state(simcore::fnv_str(&format!("{:?}|{:?}|{}|{}", mm.sent, mm.received, mm.recv_closed, mm.recv_dropped)));
    if stop == Stop::StepCap {
        sim.probe("step_cap");
        return Outcome { violation: mm.violation, nontrivial: false, sim_time: steps, discarded: true };
    }
    let parked = PARKED_SEEN.with(|f| f.get());
    if parked > 0 {
        sim.probe("sender_parked_on_full");
    }
    let nontrivial = !mm.received.is_empty() && (sim.nonbenign > 0 || parked > 0);
    Outcome { violation: mm.violation, nontrivial, sim_time: steps, discarded: false }
}
