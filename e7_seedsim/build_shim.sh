#!/bin/bash
# Build the LD_PRELOAD hash-seed shim next to this script (DESIGN §4 E7). Idempotent.
set -e
cd "$(dirname "$0")"
if [ ! -f shim.so ] || [ shim.c -nt shim.so ]; then
  gcc -O2 -fPIC -shared -o shim.so.tmp shim.c -ldl
  mv -f shim.so.tmp shim.so
fi
