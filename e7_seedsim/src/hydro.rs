//! Hydro leg of C42: a corpus of Hydro flows (public functions of `/repo/hydro_test`) is built
//! by the child `compile_dump_hydro` with the real `hydro_lang` compiler under the same
//! (hash seed, ASLR) configurations as the DFIR leg; the IR text, the per-location DFIR
//! (`preview_compile` -> mermaid / surface / JSON / `as_code` tokens) and the production embedded
//! code (`generate_embedded`) must be byte-identical.

use std::collections::BTreeMap;
use std::path::{Path, PathBuf};
use std::process::Command;
use std::sync::Mutex;
use std::sync::atomic::{AtomicUsize, Ordering};
use std::time::Instant;

use serde_json::{Value, json};
use simcore::runner::{known_for, load_findings, repo_head, verif_dir};

use crate::Args;
use crate::run::{Cfg, ENGINE, PROP, Work, engine_dir, hash_seed_for, run_child};

const ARTS: [&str; 3] = ["ir", "preview", "embedded"];

fn child() -> PathBuf {
    let exe = std::env::current_exe().unwrap_or_default();
    exe.parent().map(|d| d.join("compile_dump_hydro")).unwrap_or_default()
}

fn manifest_dir() -> String {
    // stageleft resolves crate names through `$CARGO_MANIFEST_DIR/Cargo.toml` at run time
    engine_dir().join("hydro_dump").to_string_lossy().into_owned()
}

#[derive(Clone, Debug, PartialEq, Eq)]
struct HLine {
    status: String,
    parts: [String; 3],
    inproc: String,
}

fn parse(out: &str) -> Result<(BTreeMap<String, HLine>, u64), String> {
    let mut m = BTreeMap::new();
    let mut runs = 0;
    for l in out.lines() {
        if let Some(r) = l.strip_prefix("PIPELINE_RUNS ") {
            runs = r.trim().parse().unwrap_or(0);
        }
        let Some(r) = l.strip_prefix("H ") else { continue };
        let f: Vec<&str> = r.split(' ').collect();
        if f.len() != 6 {
            return Err(format!("malformed child line: {}", l.chars().take(200).collect::<String>()));
        }
        let val = |s: &str| s.split_once('=').map(|x| x.1.to_string()).unwrap_or_default();
        m.insert(f[0].to_string(), HLine { status: f[1].to_string(), parts: [val(f[2]), val(f[3]), val(f[4])], inproc: val(f[5]) });
    }
    Ok((m, runs))
}

fn first_diff(a: &HLine, b: &HLine) -> Option<&'static str> {
    if a.status != b.status {
        return Some("status");
    }
    (0..3).find(|&k| a.parts[k] != b.parts[k]).map(|k| ARTS[k])
}

fn run_flow(flow: &str, cfg: Cfg, full: bool, reps: u64) -> Result<String, String> {
    let md = manifest_dir();
    let reps_s = reps.to_string();
    let mut a = vec![flow, "--reps", &reps_s];
    if full {
        a.push("--full");
    }
    run_child(&child(), &a, cfg, &[("CARGO_MANIFEST_DIR", &md)])
}

fn sections(out: &str) -> BTreeMap<String, String> {
    let mut m = BTreeMap::new();
    let mut cur: Option<(String, String)> = None;
    for l in out.lines() {
        if let Some(r) = l.strip_prefix("@@@BEGIN ") {
            cur = Some((r.split(' ').nth(1).unwrap_or("").to_string(), String::new()));
        } else if l.starts_with("@@@END ") {
            if let Some((n, t)) = cur.take() {
                m.insert(n, t);
            }
        } else if let Some((_, t)) = cur.as_mut() {
            t.push_str(l);
            t.push('\n');
        }
    }
    m
}

fn line_diff(a: &str, b: &str) -> String {
    for (n, (x, y)) in a.lines().zip(b.lines()).enumerate() {
        if x != y {
            let common = x.chars().zip(y.chars()).take_while(|(p, q)| p == q).count();
            let from = common.saturating_sub(80);
            let cut = |s: &str| s.chars().skip(from).take(240).collect::<String>();
            return format!("line {} col {common}: A=`{}` B=`{}`", n + 1, cut(x), cut(y));
        }
    }
    format!("texts have {} vs {} lines", a.lines().count(), b.lines().count())
}

/// Build `flow` under both configurations with full texts; `Some((class, detail))` on a difference.
/// `inproc` selects the oracle (in-process thread comparison under `a`, or cross-process `a` vs `b`).
fn compare_flow(flow: &str, a: Cfg, b: Cfg, reps: u64, inproc: bool) -> Result<Option<(String, String)>, String> {
    let oa = run_flow(flow, a, true, if inproc { reps } else { 0 })?;
    let (pa, _) = parse(&oa)?;
    let la = pa.get(flow).ok_or("child printed no H line")?;
    let sa = sections(&oa);
    if inproc {
        let Some(r) = la.inproc.strip_prefix("DIFF:") else { return Ok(None) };
        let art = r.split(':').next().unwrap_or("?").to_string();
        let d = match (sa.get(&art), sa.get(&format!("inproc-other-{art}"))) {
            (Some(x), Some(y)) => line_diff(x, y),
            _ => String::new(),
        };
        return Ok(Some((format!("hydro/inproc/{art}"), format!("flow `{flow}`: two builds in one process (hash_seed={}) differ in `{art}`: {d}", a.hash_seed))));
    }
    let ob = run_flow(flow, b, true, 0)?;
    let (pb, _) = parse(&ob)?;
    let lb = pb.get(flow).ok_or("child printed no H line")?;
    let sb = sections(&ob);
    let kind = if a.hash_seed != b.hash_seed {
        "hashseed"
    } else if a.aslr != b.aslr {
        "aslr"
    } else {
        "sameconfig"
    };
    if la.status != lb.status {
        return Ok(Some((format!("hydro/{kind}/status"), format!("flow `{flow}`: build status {} vs {}", la.status, lb.status))));
    }
    for art in ARTS {
        let (x, y) = (sa.get(art).map(|s| s.as_str()).unwrap_or(""), sb.get(art).map(|s| s.as_str()).unwrap_or(""));
        if x != y {
            return Ok(Some((
                format!("hydro/{kind}/{art}"),
                format!(
                    "flow `{flow}`: `{art}` differs between hash_seed={} aslr={} and hash_seed={} aslr={}: {}",
                    a.hash_seed,
                    a.aslr,
                    b.hash_seed,
                    b.aslr,
                    line_diff(x, y)
                ),
            )));
        }
    }
    Ok(None)
}

fn same_class(flow: &str, a: Cfg, b: Cfg, reps: u64, class: &str) -> Result<Option<String>, String> {
    let attempts = if class.contains("/aslr/") || class.contains("/sameconfig/") { 8 } else { 1 };
    for _ in 0..attempts {
        if let Some((c, d)) = compare_flow(flow, a, b, reps, class.contains("/inproc/"))? {
            if c == class {
                return Ok(Some(d));
            }
        }
    }
    Ok(None)
}

pub fn run_leg(args: &Args, _work: &Work, exit: &mut i32, reported: &mut u64, viol: &mut Vec<Value>) -> Value {
    let t0 = Instant::now();
    if !child().exists() {
        println!("hydro leg: skipped (compile_dump_hydro is not built)");
        return json!({"skipped": "compile_dump_hydro not built"});
    }
    let thorough = args.tier == "thorough";
    let n_seeds = args.hash_seeds.unwrap_or(if thorough { 16 } else { 4 }).max(2);
    let reps = 1u64;
    let list = match Command::new(child()).arg("--list").output() {
        Ok(o) if o.status.success() => String::from_utf8_lossy(&o.stdout).to_string(),
        _ => {
            eprintln!("HARNESS: compile_dump_hydro --list failed");
            *exit = 2;
            return json!({});
        }
    };
    let flows: Vec<String> = list.lines().map(|s| s.trim().to_string()).filter(|s| !s.is_empty()).collect();
    let mut cfgs: Vec<Cfg> = vec![];
    for i in 0..n_seeds {
        if i == 0 {
            cfgs.push(Cfg { hash_seed: hash_seed_for(args.seed, 0), aslr: false });
            cfgs.push(Cfg { hash_seed: hash_seed_for(args.seed, 0), aslr: true });
        } else {
            cfgs.push(Cfg { hash_seed: hash_seed_for(args.seed, i), aslr: i % 2 == 1 });
        }
    }
    cfgs.push(cfgs[0]);
    // biggest flows first (paxos, two_pc dominate the wall time)
    let mut order: Vec<usize> = (0..flows.len()).collect();
    order.sort_by_key(|&i| match flows[i].as_str() {
        "paxos" => 0,
        "two_pc" => 1,
        _ => 2,
    });
    let jobs: Vec<(usize, usize)> = order.iter().flat_map(|&f| (0..cfgs.len()).map(move |c| (f, c))).collect();
    let next = AtomicUsize::new(0);
    let results: Mutex<Vec<Option<Result<(BTreeMap<String, HLine>, u64), String>>>> = Mutex::new((0..jobs.len()).map(|_| None).collect());
    std::thread::scope(|s| {
        for _ in 0..args.threads.max(1) {
            s.spawn(|| {
                loop {
                    let j = next.fetch_add(1, Ordering::Relaxed);
                    if j >= jobs.len() {
                        break;
                    }
                    let (f, c) = jobs[j];
                    let r = run_flow(&flows[f], cfgs[c], false, reps).and_then(|o| parse(&o));
                    results.lock().unwrap()[j] = Some(r);
                }
            });
        }
    });
    let mut lines: Vec<BTreeMap<String, HLine>> = (0..cfgs.len()).map(|_| BTreeMap::new()).collect();
    let mut runs = 0u64;
    for (j, r) in results.into_inner().unwrap().into_iter().enumerate() {
        match r {
            Some(Ok((m, n))) => {
                runs += n;
                lines[jobs[j].1].extend(m);
            }
            Some(Err(e)) => {
                eprintln!("HARNESS: hydro child failed: {e}");
                *exit = 2;
                return json!({});
            }
            None => {
                eprintln!("HARNESS: hydro job {j} did not run");
                *exit = 2;
                return json!({});
            }
        }
    }
    let last = cfgs.len() - 1;
    let mut found: BTreeMap<String, (String, Cfg, Cfg)> = BTreeMap::new();
    let mut ok_flows = 0;
    for f in &flows {
        let Some(l0) = lines[0].get(f) else {
            eprintln!("HARNESS: hydro child reported nothing for flow {f}");
            *exit = 2;
            return json!({});
        };
        if l0.status == "ok" {
            ok_flows += 1;
        }
        for (c, cfg) in cfgs.iter().enumerate() {
            let Some(l) = lines[c].get(f) else {
                eprintln!("HARNESS: hydro child reported nothing for flow {f}");
                *exit = 2;
                return json!({});
            };
            if let Some(r) = l.inproc.strip_prefix("DIFF:") {
                let art = r.split(':').next().unwrap_or("?");
                found.entry(format!("hydro/inproc/{art}")).or_insert((f.clone(), *cfg, *cfg));
            }
            if c == 0 {
                continue;
            }
            let (kind, r) = if c == last {
                ("sameconfig", 0)
            } else if c == 1 {
                ("aslr", 0)
            } else {
                ("hashseed", if cfg.aslr { 1 } else { 0 })
            };
            if let Some(art) = first_diff(&lines[r][f], l) {
                found.entry(format!("hydro/{kind}/{art}")).or_insert((f.clone(), cfgs[r], *cfg));
            }
        }
    }
    let evaluations = flows.len() * cfgs.len();
    println!(
        "hydro leg: {} flows ({} built) x {} configurations = {} compared builds, {} pipeline runs, {:.1}s; differing classes: {}",
        flows.len(),
        ok_flows,
        cfgs.len(),
        evaluations,
        runs,
        t0.elapsed().as_secs_f64(),
        found.len()
    );
    if ok_flows * 2 < flows.len() {
        eprintln!("HARNESS: only {ok_flows}/{} Hydro flows build — the corpus no longer matches hydro_test", flows.len());
        *exit = 2;
        return json!({});
    }
    let findings = load_findings();
    let exe = std::env::current_exe().unwrap_or_default();
    for (n, (class, (flow, a, b))) in found.iter().take(4).enumerate() {
        let detail = match same_class(flow, *a, *b, reps, class) {
            Ok(Some(d)) => d,
            Ok(None) => {
                eprintln!("HARNESS: difference {class} of flow {flow} did not reproduce");
                *exit = 2;
                return json!({});
            }
            Err(e) => {
                eprintln!("HARNESS: {e}");
                *exit = 2;
                return json!({});
            }
        };
        let dir = verif_dir().join("replays");
        let _ = std::fs::create_dir_all(&dir);
        let path = dir.join(format!("{PROP}-{}-hydro-{flow}-{n}.json", args.seed));
        let j = json!({
            "property": PROP, "engine": ENGINE, "kind": "hydro", "seed": args.seed, "repo_head": repo_head(),
            "violation": class, "detail": detail, "flow": flow,
            "hash_seed_a": a.hash_seed, "aslr_a": a.aslr, "hash_seed_b": b.hash_seed, "aslr_b": b.aslr, "inproc_reps": reps,
            "how_to_replay": "e7_seedsim C42 --replay <this file>  (builds `flow` with compile_dump_hydro under LD_PRELOAD=shim.so for both (VERIF_HASH_SEED, ASLR) settings and compares IR / per-location DFIR / embedded code bytes)",
        });
        if std::fs::write(&path, serde_json::to_string_pretty(&j).unwrap_or_default()).is_err() {
            eprintln!("HARNESS: cannot write replay {}", path.display());
            *exit = 2;
            return json!({});
        }
        let out = Command::new(&exe).args([PROP, "--replay", path.to_str().unwrap_or("")]).output();
        let confirmed = matches!(&out, Ok(o) if String::from_utf8_lossy(&o.stdout).contains(&format!("REPLAY-VIOLATION class={class}")));
        if !confirmed {
            eprintln!("HARNESS: violation {class} did not reproduce from {} in a fresh process", path.display());
            *exit = 2;
            return json!({});
        }
        if let Some(f) = known_for(&findings, PROP, class) {
            println!("KNOWN-FINDING: property={PROP} {}", f.what);
            viol.push(json!({"class": class, "known_finding": true, "replay": path, "detail": detail}));
            continue;
        }
        println!("violation class={class} flow={flow}: {detail}");
        println!("VIOLATION property={PROP} replay={}", path.display());
        viol.push(json!({"class": class, "known_finding": false, "replay": path, "detail": detail}));
        *reported += 1;
        *exit = 1;
    }
    json!({
        "flows": flows, "flows_built": ok_flows, "configurations": cfgs.len(), "hash_seeds": n_seeds,
        "evaluations": evaluations, "compile_pipeline_runs": runs, "differing_classes": found.len(),
        "artefacts": "Debug text of the Hydro IR; per location DFIR mermaid + surface syntax + graph JSON + as_code tokens (preview_compile); prettyplease'd generate_embedded code for the flows with named channels",
        "real_components": ["hydro_lang FlowBuilder / IR / emit (compile/ir)", "DeployFlow::preview_compile", "EmbeddedDeploy::generate_embedded (compile/embedded.rs)", "dfir_lang partitioning + as_code", "stageleft q! splicing"],
        "wall_s": t0.elapsed().as_secs_f64(),
        "sample": lines[0].iter().next().map(|(k, v)| json!({"flow": k, "status": v.status, "ir": v.parts[0], "preview": v.parts[1], "embedded": v.parts[2]})),
    })
}

pub fn do_replay(v: &Value, path: &Path) -> i32 {
    let flow = v["flow"].as_str().unwrap_or("").to_string();
    let a = Cfg { hash_seed: v["hash_seed_a"].as_u64().unwrap_or(0), aslr: v["aslr_a"].as_bool().unwrap_or(true) };
    let b = Cfg { hash_seed: v["hash_seed_b"].as_u64().unwrap_or(1), aslr: v["aslr_b"].as_bool().unwrap_or(true) };
    let reps = v["inproc_reps"].as_u64().unwrap_or(1);
    let expect = v["violation"].as_str().unwrap_or("").to_string();
    if !child().exists() {
        eprintln!("HARNESS: {} is missing (run /verif/e7_seedsim/run.sh)", child().display());
        return 2;
    }
    println!("replay property={PROP} hydro flow `{flow}`");
    let attempts = if expect.contains("/aslr/") || expect.contains("/sameconfig/") { 16 } else { 1 };
    for _ in 0..attempts {
        match compare_flow(&flow, a, b, reps, expect.contains("/inproc/")) {
            Ok(Some((class, detail))) => {
                println!("REPLAY-VIOLATION class={class} detail={detail}");
                let fs = load_findings();
                if let Some(f) = known_for(&fs, PROP, &class) {
                    println!("KNOWN-FINDING: property={PROP} {}", f.what);
                    return 0;
                }
                println!("VIOLATION property={PROP} replay={}", path.display());
                return 1;
            }
            Ok(None) => {}
            Err(e) => {
                eprintln!("HARNESS: {e}");
                return 2;
            }
        }
    }
    println!("REPLAY-OK expected_class={expect} (outputs byte-identical on this tree)");
    0
}
