//! Hydro leg of C42 (second priority).
use std::path::Path;

use serde_json::{Value, json};

use crate::Args;
use crate::run::Work;

pub fn run_leg(_args: &Args, _work: &Work, _exit: &mut i32, _reported: &mut u64, _viol: &mut Vec<Value>) -> Value {
    json!({"skipped": "compile_dump_hydro not built"})
}

pub fn do_replay(_v: &Value, _path: &Path) -> i32 {
    eprintln!("HARNESS: hydro replay not available");
    2
}
