//! Parent side of the C42 check: generation, child orchestration, byte comparison, minimisation,
//! replay files, evidence.

use std::collections::{BTreeMap, BTreeSet};
use std::os::unix::process::CommandExt;
use std::path::{Path, PathBuf};
use std::process::Command;
use std::sync::Mutex;
use std::sync::atomic::{AtomicU64, AtomicUsize, Ordering};
use std::time::Instant;

use serde_json::{Value, json};
use simcore::runner::{known_for, load_findings, repo_head, verif_dir};
use simcore::{Sim, fnv_str, mix};

use crate::Args;
use crate::progen;

pub const ENGINE: &str = "e7_seedsim";
pub const PROP: &str = "C42";

// ---------------------------------------------------------------------------------------------
// Generation

pub struct Prog {
    pub idx: u64,
    pub text: String,
    pub stmts: Vec<String>,
    pub hash: u64,
    pub multi: bool,
}

pub fn gen_one(root: u64, idx: u64) -> Prog {
    let mut sim = Sim::seeded(mix(&[root, fnv_str(ENGINE), fnv_str("dfir"), idx]));
    let p = progen::generate(&mut sim);
    let text = p.text();
    Prog { idx, hash: fnv_str(&text), multi: progen::is_multi(&text), text, stmts: p.stmts }
}

pub fn gen_programs(root: u64, n: u64, threads: usize) -> Vec<Prog> {
    let next = AtomicU64::new(0);
    let out = Mutex::new(Vec::<Prog>::with_capacity(n as usize));
    std::thread::scope(|s| {
        for _ in 0..threads.max(1) {
            s.spawn(|| {
                let mut mine = vec![];
                loop {
                    let base = next.fetch_add(32, Ordering::Relaxed);
                    if base >= n {
                        break;
                    }
                    for i in base..(base + 32).min(n) {
                        mine.push(gen_one(root, i));
                    }
                }
                out.lock().unwrap().extend(mine);
            });
        }
    });
    let mut v = out.into_inner().unwrap();
    v.sort_by_key(|p| p.idx);
    v
}

pub fn gen_hash(root: u64, n: u64, threads: usize) -> u64 {
    let mut acc = 0xcbf2_9ce4_8422_2325u64;
    for p in gen_programs(root, n, threads) {
        acc = (acc ^ p.idx.wrapping_mul(31) ^ p.hash).wrapping_mul(0x0000_0100_0000_01B3);
    }
    acc
}

// ---------------------------------------------------------------------------------------------
// Children

#[derive(Clone, Copy, Debug, PartialEq, Eq)]
pub struct Cfg {
    pub hash_seed: u64,
    pub aslr: bool,
}
impl Cfg {
    fn label(&self) -> String {
        format!("hash_seed={} aslr={}", self.hash_seed, if self.aslr { "on" } else { "off" })
    }
}

pub fn engine_dir() -> PathBuf {
    verif_dir().join("e7_seedsim")
}
fn shim_path() -> PathBuf {
    engine_dir().join("shim.so")
}
fn bin(name: &str) -> PathBuf {
    let exe = std::env::current_exe().unwrap_or_else(|_| PathBuf::from("/verif/e7_seedsim/target/release/e7_seedsim"));
    exe.parent().map(|d| d.join(name)).unwrap_or_else(|| PathBuf::from(name))
}

unsafe extern "C" {
    fn personality(persona: std::ffi::c_ulong) -> std::ffi::c_int;
}
const ADDR_NO_RANDOMIZE: std::ffi::c_ulong = 0x0040000;

/// Run a child under the seam: `LD_PRELOAD=shim.so`, `VERIF_HASH_SEED`, ASLR on/off
/// (`personality(ADDR_NO_RANDOMIZE)` before exec -- what `setarch -R` does).
pub fn run_child(program: &Path, args: &[&str], cfg: Cfg, extra_env: &[(&str, &str)]) -> Result<String, String> {
    let mut c = Command::new(program);
    c.args(args);
    c.env("LD_PRELOAD", shim_path());
    c.env("VERIF_HASH_SEED", cfg.hash_seed.to_string());
    c.env_remove("VERIF_HASH_TRACE");
    // glibc malloc tuning for the children: every compilation runs on a fresh thread, and with
    // per-thread arenas that are grown by mprotect and trimmed on exit a compile spends ~4x the
    // CPU in page faults (measured: 32 compiles 6.7 s -> 1.4 s user).  One arena that is never
    // trimmed avoids that.  This only changes where allocations land, not what is compared.
    c.env("MALLOC_ARENA_MAX", "1");
    c.env("MALLOC_TOP_PAD_", "268435456");
    c.env("MALLOC_TRIM_THRESHOLD_", "2147483647");
    c.env("MALLOC_MMAP_THRESHOLD_", "1073741824");
    for (k, v) in extra_env {
        c.env(k, v);
    }
    if !cfg.aslr {
        unsafe {
            c.pre_exec(|| {
                let cur = personality(0xffff_ffff);
                if cur < 0 || personality(cur as std::ffi::c_ulong | ADDR_NO_RANDOMIZE) < 0 {
                    return Err(std::io::Error::last_os_error());
                }
                Ok(())
            });
        }
    }
    let out = c.output().map_err(|e| format!("cannot run {}: {e}", program.display()))?;
    if !out.status.success() {
        return Err(format!(
            "{} [{}] exited {:?}: {}",
            program.display(),
            cfg.label(),
            out.status.code(),
            String::from_utf8_lossy(&out.stderr).chars().take(2000).collect::<String>()
        ));
    }
    String::from_utf8(out.stdout).map_err(|_| "child output is not utf-8".to_string())
}

pub struct Work {
    pub dir: PathBuf,
}
impl Work {
    pub fn new(tag: &str) -> Work {
        let dir = engine_dir().join("target").join("work").join(format!("{tag}-{}", std::process::id()));
        let _ = std::fs::remove_dir_all(&dir);
        if let Err(e) = std::fs::create_dir_all(&dir) {
            eprintln!("HARNESS: cannot create {}: {e}", dir.display());
            std::process::exit(2);
        }
        Work { dir }
    }
}
impl Drop for Work {
    fn drop(&mut self) {
        let _ = std::fs::remove_dir_all(&self.dir);
    }
}

// ---------------------------------------------------------------------------------------------
// Seam control probe

pub struct SeamProbe {
    pub ok: bool,
    pub report: Value,
    pub error: String,
}

fn strip_addr(s: &str) -> String {
    s.lines().filter(|l| !l.starts_with("addr:")).collect::<Vec<_>>().join("\n")
}
fn addr_line(s: &str) -> String {
    s.lines().find(|l| l.starts_with("addr:")).unwrap_or("").to_string()
}

pub fn seam_probe(seed_a: u64, seed_b: u64) -> SeamProbe {
    let hp = bin("hashprobe");
    let mut err = String::new();
    let mut run = |cfg: Cfg| match run_child(&hp, &[], cfg, &[]) {
        Ok(s) => s,
        Err(e) => {
            err = e;
            String::new()
        }
    };
    let a1 = run(Cfg { hash_seed: seed_a, aslr: true });
    let a2 = run(Cfg { hash_seed: seed_a, aslr: true });
    let b1 = run(Cfg { hash_seed: seed_b, aslr: true });
    let a3 = run(Cfg { hash_seed: seed_a, aslr: false });
    let a4 = run(Cfg { hash_seed: seed_a, aslr: false });
    if !err.is_empty() {
        return SeamProbe { ok: false, report: json!({}), error: err };
    }
    let loaded = a1.contains("shim_loaded: true");
    let same_seed_same = strip_addr(&a1) == strip_addr(&a2) && strip_addr(&a1) == strip_addr(&a3);
    // every order line (main set, main map, each thread, sparse map) must change with the seed
    let la: Vec<&str> = a1.lines().filter(|l| l.contains(':') && !l.starts_with("addr") && !l.starts_with("shim")).collect();
    let lb: Vec<&str> = b1.lines().filter(|l| l.contains(':') && !l.starts_with("addr") && !l.starts_with("shim")).collect();
    let lines_differ = la.iter().zip(&lb).filter(|(x, y)| x != y).count();
    let diff_seed_diff = la.len() == lb.len() && la.len() >= 6 && lines_differ == la.len();
    let thread_lines = la.iter().filter(|l| l.starts_with("thread")).count();
    let aslr_off_stable = !addr_line(&a3).is_empty() && addr_line(&a3) == addr_line(&a4);
    let aslr_on_varies = addr_line(&a1) != addr_line(&a2);
    let ok = loaded && same_seed_same && diff_seed_diff && thread_lines >= 3;
    let mut error = String::new();
    if !ok {
        error = format!(
            "seam control failed: shim_loaded={loaded} same_seed_same_order={same_seed_same} lines_changed_with_seed={lines_differ}/{} thread_lines={thread_lines}",
            la.len()
        );
    }
    SeamProbe {
        ok,
        report: json!({
            "control": "hashprobe child iterating std HashSet/HashMap (main thread + 3 sequentially spawned threads) and a slotmap::SparseSecondaryMap",
            "shim_loaded": loaded,
            "same_seed_same_order": same_seed_same,
            "order_lines_changed_by_seed": lines_differ,
            "order_lines": la.len(),
            "spawned_thread_lines": thread_lines,
            "aslr_off_addresses_stable": aslr_off_stable,
            "aslr_on_addresses_vary": aslr_on_varies,
            "sample_seed_a": a1.lines().take(1).collect::<Vec<_>>(),
            "sample_seed_b": b1.lines().take(1).collect::<Vec<_>>(),
            "addr_aslr_on": [addr_line(&a1), addr_line(&a2)],
            "addr_aslr_off": [addr_line(&a3), addr_line(&a4)],
        }),
        error,
    }
}

// ---------------------------------------------------------------------------------------------
// Digest lines

/// One `P` line of a child, split into fields.
#[derive(Clone, Debug, PartialEq, Eq)]
pub struct PLine {
    pub status: String,
    /// json, surface, mermaid, code digests
    pub parts: [String; 4],
    pub inproc: String,
}
pub const NAMES: [&str; 4] = ["json", "surface", "mermaid", "code"];

fn parse_plines(out: &str) -> Result<(BTreeMap<u64, PLine>, u64), String> {
    let mut m = BTreeMap::new();
    let mut runs = 0;
    for l in out.lines() {
        if let Some(r) = l.strip_prefix("PIPELINE_RUNS ") {
            runs = r.trim().parse().unwrap_or(0);
            continue;
        }
        let Some(r) = l.strip_prefix("P ") else { continue };
        let f: Vec<&str> = r.split(' ').collect();
        if f.len() != 7 {
            return Err(format!("malformed child line: {l}"));
        }
        let id: u64 = f[0].parse().map_err(|_| format!("bad id in: {l}"))?;
        let field = |s: &str, k: &str| s.strip_prefix(k).and_then(|x| x.strip_prefix('=')).map(|x| x.to_string()).ok_or(format!("bad field {k} in: {l}"));
        m.insert(
            id,
            PLine {
                status: f[1].to_string(),
                parts: [field(f[2], "json")?, field(f[3], "surface")?, field(f[4], "mermaid")?, field(f[5], "code")?],
                inproc: field(f[6], "inproc")?,
            },
        );
    }
    Ok((m, runs))
}

/// First differing artefact between two digest lines.
fn first_diff(a: &PLine, b: &PLine) -> Option<&'static str> {
    if a.status != b.status {
        return Some("status");
    }
    (0..4).find(|&k| a.parts[k] != b.parts[k]).map(|k| NAMES[k])
}

// ---------------------------------------------------------------------------------------------
// Full-text comparison of two child outputs for one program (replay / minimisation)

fn sections(out: &str) -> (String, BTreeMap<String, String>) {
    let mut status = String::new();
    let mut m = BTreeMap::new();
    let mut cur: Option<(String, String)> = None;
    for l in out.lines() {
        if let Some(r) = l.strip_prefix("@@@BEGIN ") {
            let name = r.split(' ').nth(1).unwrap_or("").to_string();
            cur = Some((name, String::new()));
        } else if l.starts_with("@@@END ") {
            if let Some((n, t)) = cur.take() {
                m.insert(n, t);
            }
        } else if let Some((_, t)) = cur.as_mut() {
            t.push_str(l);
            t.push('\n');
        } else if let Some(r) = l.strip_prefix("P ") {
            status = r.split(' ').nth(1).unwrap_or("").to_string();
        }
    }
    (status, m)
}

fn first_line_diff(a: &str, b: &str) -> String {
    let (mut la, mut lb) = (a.lines(), b.lines());
    let mut n = 0;
    loop {
        n += 1;
        match (la.next(), lb.next()) {
            (Some(x), Some(y)) if x == y => continue,
            (x, y) => {
                // window around the first differing character of the differing line
                let (xs, ys) = (x.unwrap_or(""), y.unwrap_or(""));
                let common = xs.chars().zip(ys.chars()).take_while(|(p, q)| p == q).count();
                let from = common.saturating_sub(80);
                let cut = |s: Option<&str>| {
                    s.map(|s| s.chars().skip(from).take(240).collect::<String>()).unwrap_or_else(|| "<end of text>".into())
                };
                return format!("line {n} col {common}: A=`{}` B=`{}`", cut(x), cut(y));
            }
        }
    }
}

pub struct DiffFound {
    pub class: String,
    pub detail: String,
}

/// Compile `text` under the two configurations (or, for an in-process class, under `a` only)
/// and report the violation class, comparing the **full bytes** of the artefacts.
///
/// `inproc` selects the oracle: `true` = the in-process comparison (two compilations on different
/// threads of one child, under `a`); `false` = the cross-process comparison of the first
/// compilation under `a` with the first compilation under `b` (in-process flags are ignored, so
/// that a program showing both kinds is attributed to the class that is being replayed).
pub fn compare_program(work: &Work, text: &str, a: Cfg, b: Cfg, reps: u64, tag: &str, inproc: bool) -> Result<Option<DiffFound>, String> {
    let f = work.dir.join(format!("{tag}.dfir"));
    std::fs::write(&f, format!("@@@PROGRAM 0\n{text}")).map_err(|e| e.to_string())?;
    let child = bin("compile_dump_dfir");
    let fs = f.to_str().unwrap_or("");
    let reps_s = if inproc { reps.to_string() } else { "0".to_string() };
    let oa = run_child(&child, &[fs, "--full", "--reps", &reps_s], a, &[])?;
    let (pa, _) = parse_plines(&oa)?;
    let la = pa.get(&0).ok_or("child printed no P line")?;
    if inproc {
        let Some(r) = la.inproc.strip_prefix("DIFF:") else { return Ok(None) };
        let art = r.split(':').next().unwrap_or("?");
        let (_, sa) = sections(&oa);
        let key = if art == "code" { "pretty" } else { art };
        let d = match (sa.get(key), sa.get(&format!("inproc-other-{key}"))) {
            (Some(x), Some(y)) if x != y => first_line_diff(x, y),
            _ => match (sa.get(art), sa.get(&format!("inproc-other-{art}"))) {
                (Some(x), Some(y)) => first_line_diff(x, y),
                _ => String::new(),
            },
        };
        return Ok(Some(DiffFound {
            class: format!("dfir/inproc/{art}"),
            detail: format!("two compilations in one process ({}), on different threads, differ in `{art}`: {d}", a.label()),
        }));
    }
    let ob = run_child(&child, &[fs, "--full", "--reps", "0"], b, &[])?;
    let (pb, _) = parse_plines(&ob)?;
    pb.get(&0).ok_or("child printed no P line")?;
    let kind = if a.hash_seed != b.hash_seed {
        "hashseed"
    } else if a.aslr != b.aslr {
        "aslr"
    } else {
        "sameconfig"
    };
    let (sta, sa) = sections(&oa);
    let (stb, sb) = sections(&ob);
    if sta != stb {
        return Ok(Some(DiffFound {
            class: format!("dfir/{kind}/status"),
            detail: format!("compile status `{sta}` under {} but `{stb}` under {}", a.label(), b.label()),
        }));
    }
    if sta != "ok" {
        return Ok(None);
    }
    for art in NAMES {
        let (x, y) = (sa.get(art).map(|s| s.as_str()).unwrap_or(""), sb.get(art).map(|s| s.as_str()).unwrap_or(""));
        if x != y {
            let (px, py) = (sa.get("pretty").map(|s| s.as_str()).unwrap_or(""), sb.get("pretty").map(|s| s.as_str()).unwrap_or(""));
            let d = if art == "code" && px != py { format!("(prettyplease'd) {}", first_line_diff(px, py)) } else { first_line_diff(x, y) };
            return Ok(Some(DiffFound {
                class: format!("dfir/{kind}/{art}"),
                detail: format!("`{art}` differs between {} and {}: {d}", a.label(), b.label()),
            }));
        }
    }
    Ok(None)
}

fn same_class(work: &Work, text: &str, a: Cfg, b: Cfg, reps: u64, class: &str, tag: &str) -> Result<bool, String> {
    // an ASLR-induced difference is not owned by a seed: retry a few times
    let attempts = if class.contains("/aslr/") || class.contains("/sameconfig/") { 6 } else { 1 };
    for _ in 0..attempts {
        if let Some(d) = compare_program(work, text, a, b, reps, tag, class.contains("/inproc/"))? {
            if d.class == class {
                return Ok(true);
            }
        }
    }
    Ok(false)
}

/// Shrink the program text: drop statements (ddmin), then drop single ` -> op(..)` segments,
/// while the same violation class persists.
fn minimise(work: &Work, stmts: &[String], a: Cfg, b: Cfg, reps: u64, class: &str) -> (Vec<String>, usize) {
    let mut cur: Vec<String> = stmts.to_vec();
    let mut tests = 0usize;
    let budget = 600usize;
    let test = |cand: &[String], tests: &mut usize| -> bool {
        if *tests >= budget || cand.is_empty() {
            return false;
        }
        *tests += 1;
        let text: String = cand.iter().map(|s| format!("{s}\n")).collect();
        same_class(work, &text, a, b, reps, class, "min").unwrap_or(false)
    };
    loop {
        let before = cur.clone();
        let mut chunk = (cur.len() / 2).max(1);
        loop {
            let mut i = 0;
            while i < cur.len() && cur.len() > 1 {
                let end = (i + chunk).min(cur.len());
                let mut cand = cur.clone();
                cand.drain(i..end);
                if test(&cand, &mut tests) {
                    cur = cand;
                } else {
                    i += chunk;
                }
            }
            if chunk == 1 {
                break;
            }
            chunk /= 2;
        }
        // drop lines inside loop blocks and single pipeline segments
        let mut si = 0;
        while si < cur.len() {
            if cur[si].starts_with("loop {") {
                let lines: Vec<String> = cur[si].lines().map(|l| l.to_string()).collect();
                let mut li = 1;
                let mut lines_cur = lines;
                while li + 1 < lines_cur.len() {
                    let t = lines_cur[li].trim();
                    if t.starts_with("loop {") || t == "};" {
                        li += 1;
                        continue;
                    }
                    let mut cl = lines_cur.clone();
                    cl.remove(li);
                    let mut cand = cur.clone();
                    cand[si] = cl.join("\n");
                    if test(&cand, &mut tests) {
                        cur = cand;
                        lines_cur = cl;
                    } else {
                        li += 1;
                    }
                }
            } else {
                let mut k = 1;
                loop {
                    let segs: Vec<&str> = cur[si].trim_end_matches(';').split(" -> ").collect();
                    if segs.len() < 3 || k + 1 >= segs.len() {
                        break;
                    }
                    if segs[k].starts_with('[') {
                        k += 1;
                        continue;
                    }
                    let mut ns: Vec<&str> = segs.clone();
                    ns.remove(k);
                    let mut cand = cur.clone();
                    cand[si] = format!("{};", ns.join(" -> "));
                    if test(&cand, &mut tests) {
                        cur = cand;
                    } else {
                        k += 1;
                    }
                }
            }
            si += 1;
        }
        if cur == before || tests >= budget {
            break;
        }
    }
    (cur, tests)
}

// ---------------------------------------------------------------------------------------------
// Replay files

#[allow(clippy::too_many_arguments)]
fn write_replay(seed: u64, idx: u64, text: &str, orig_stmts: usize, a: Cfg, b: Cfg, reps: u64, d: &DiffFound, n: usize) -> PathBuf {
    let dir = verif_dir().join("replays");
    let _ = std::fs::create_dir_all(&dir);
    let path = dir.join(format!("{PROP}-{seed}-{idx}-{n}.json"));
    let j = json!({
        "property": PROP, "engine": ENGINE, "kind": "dfir",
        "seed": seed, "program_index": idx, "repo_head": repo_head(),
        "violation": d.class, "detail": d.detail,
        "hash_seed_a": a.hash_seed, "aslr_a": a.aslr,
        "hash_seed_b": b.hash_seed, "aslr_b": b.aslr,
        "inproc_reps": reps,
        "statements": text.lines().count(), "unminimised_statements": orig_stmts,
        "program": text,
        "how_to_replay": "e7_seedsim C42 --replay <this file>  (compiles `program` with compile_dump_dfir under LD_PRELOAD=shim.so for both (VERIF_HASH_SEED, ASLR) settings and compares the bytes of graph JSON / surface syntax / mermaid / prettyplease'd code)",
    });
    if let Err(e) = std::fs::write(&path, serde_json::to_string_pretty(&j).unwrap_or_default()) {
        eprintln!("HARNESS: cannot write replay {}: {e}", path.display());
        std::process::exit(2);
    }
    path
}

pub fn do_replay(path: &Path) -> i32 {
    let s = match std::fs::read_to_string(path) {
        Ok(s) => s,
        Err(e) => {
            eprintln!("HARNESS: cannot read replay {}: {e}", path.display());
            return 2;
        }
    };
    let v: Value = match serde_json::from_str(&s) {
        Ok(v) => v,
        Err(e) => {
            eprintln!("HARNESS: bad replay json: {e}");
            return 2;
        }
    };
    if v["kind"].as_str() == Some("hydro") {
        return crate::hydro::do_replay(&v, path);
    }
    let text = v["program"].as_str().unwrap_or("").to_string();
    let a = Cfg { hash_seed: v["hash_seed_a"].as_u64().unwrap_or(0), aslr: v["aslr_a"].as_bool().unwrap_or(true) };
    let b = Cfg { hash_seed: v["hash_seed_b"].as_u64().unwrap_or(1), aslr: v["aslr_b"].as_bool().unwrap_or(true) };
    let reps = v["inproc_reps"].as_u64().unwrap_or(2);
    let expect = v["violation"].as_str().unwrap_or("").to_string();
    if let Err(e) = ensure_built() {
        eprintln!("HARNESS: {e}");
        return 2;
    }
    let work = Work::new("replay");
    println!("replay property={PROP} program ({} statements) under A: {} / B: {}", text.lines().count(), a.label(), b.label());
    let attempts = if expect.contains("/aslr/") || expect.contains("/sameconfig/") { 16 } else { 1 };
    let mut found = None;
    for _ in 0..attempts {
        match compare_program(&work, &text, a, b, reps, "replay", expect.contains("/inproc/")) {
            Ok(Some(d)) => {
                found = Some(d);
                break;
            }
            Ok(None) => {}
            Err(e) => {
                eprintln!("HARNESS: {e}");
                return 2;
            }
        }
    }
    match found {
        Some(d) => {
            println!("REPLAY-VIOLATION class={} detail={}", d.class, d.detail);
            let fs = load_findings();
            if let Some(f) = known_for(&fs, PROP, &d.class) {
                println!("KNOWN-FINDING: property={PROP} {}", f.what);
                return 0;
            }
            println!("VIOLATION property={PROP} replay={}", path.display());
            1
        }
        None => {
            println!("REPLAY-OK expected_class={expect} (outputs byte-identical on this tree)");
            0
        }
    }
}

fn ensure_built() -> Result<(), String> {
    for p in [shim_path(), bin("compile_dump_dfir"), bin("hashprobe")] {
        if !p.exists() {
            return Err(format!("{} is missing (run /verif/e7_seedsim/run.sh or build_shim.sh + cargo build --release)", p.display()));
        }
    }
    Ok(())
}

// ---------------------------------------------------------------------------------------------
// The check

/// Remember, per violation class, the smallest program showing it (cheapest to minimise).
fn keep_smallest<'a>(found: &mut BTreeMap<String, (&'a Prog, Cfg, Cfg)>, class: String, p: &'a Prog, a: Cfg, b: Cfg) {
    match found.get(&class) {
        Some((q, _, _)) if q.stmts.len() <= p.stmts.len() => {}
        _ => {
            found.insert(class, (p, a, b));
        }
    }
}

pub fn hash_seed_for(root: u64, i: u64) -> u64 {
    // 48-bit seeds keep the replay files readable; 0 is reserved for "first"
    1 + (mix(&[root, fnv_str(ENGINE), fnv_str("hashseed"), i]) & 0xffff_ffff_ffff)
}

pub fn do_check(args: &Args) -> i32 {
    let t0 = Instant::now();
    let thorough = args.tier == "thorough";
    let n_prog = args.runs.unwrap_or(if thorough { 3_000 } else { 300 });
    let n_seeds = args.hash_seeds.unwrap_or(if thorough { 32 } else { 4 }).max(2);
    let reps: u64 = 1;
    println!(
        "check property={PROP} engine={ENGINE} tier={} VERIF_SEED={} programs={} hash_seeds={} aslr=on,off inproc_reps={} workers={}",
        args.tier, args.seed, n_prog, n_seeds, reps, args.threads
    );
    if let Err(e) = ensure_built() {
        eprintln!("HARNESS: {e}");
        return 2;
    }

    // 1. the seam must work, else nothing below means anything
    let probe = seam_probe(hash_seed_for(args.seed, 0), hash_seed_for(args.seed, 1));
    if !probe.ok {
        eprintln!("HARNESS: {}", probe.error);
        return 2;
    }
    println!(
        "seam control: HashSet/HashMap/SparseSecondaryMap iteration order is a function of VERIF_HASH_SEED (same seed -> same, other seed -> all {} order lines changed, incl. spawned threads); aslr_off_stable={} aslr_on_varies={}",
        probe.report["order_lines"], probe.report["aslr_off_addresses_stable"], probe.report["aslr_on_addresses_vary"]
    );

    // 2. determinism self-test of the generator (DESIGN §3.6)
    let st_n = n_prog.min(if thorough { 4000 } else { 600 });
    let h1 = gen_hash(args.seed, st_n, 1);
    let h16 = gen_hash(args.seed, st_n, 16);
    if h1 != h16 {
        eprintln!("HARNESS: determinism self-test failed: generator 1 thread {h1:016x} vs 16 threads {h16:016x}");
        return 2;
    }
    let exe = std::env::current_exe().unwrap_or_default();
    for hs in [12345u64, 987654321] {
        let a = [PROP, "--gen-hash", &st_n.to_string(), "--threads", "4", "--seed", &args.seed.to_string()].map(|s| s.to_string());
        let ar: Vec<&str> = a.iter().map(|s| s.as_str()).collect();
        match run_child(&exe, &ar, Cfg { hash_seed: hs, aslr: hs % 2 == 0 }, &[]) {
            Ok(o) if o.contains(&format!("GENHASH {h1:016x}")) => {}
            Ok(o) => {
                eprintln!("HARNESS: determinism self-test failed: fresh process (VERIF_HASH_SEED={hs}) said {} want {h1:016x}", o.trim());
                return 2;
            }
            Err(e) => {
                eprintln!("HARNESS: determinism self-test could not run: {e}");
                return 2;
            }
        }
    }
    println!("selftest: generator output for {st_n} programs identical (1 vs 16 threads in-process; 2 fresh processes under other hash seeds, ASLR on/off): {h1:016x}");

    // 3. generate, dedupe by text
    let progs_all = gen_programs(args.seed, n_prog, args.threads);
    let mut seen = BTreeSet::new();
    let progs: Vec<&Prog> = progs_all.iter().filter(|p| seen.insert(p.hash)).collect();
    let work = Work::new("check");

    // 4. configurations: hash seed 0 with ASLR off and on; every further hash seed with ASLR
    //    alternating on/off; plus a repeat of configuration 0 in another process
    let mut cfgs: Vec<Cfg> = vec![];
    for i in 0..n_seeds {
        if i == 0 {
            cfgs.push(Cfg { hash_seed: hash_seed_for(args.seed, 0), aslr: false });
            cfgs.push(Cfg { hash_seed: hash_seed_for(args.seed, 0), aslr: true });
        } else {
            cfgs.push(Cfg { hash_seed: hash_seed_for(args.seed, i), aslr: i % 2 == 1 });
        }
    }
    cfgs.push(cfgs[0]); // same seed, ASLR off, second process: must also be identical
    let n_batches = ((progs.len() + 7) / 8).clamp(1, 1024);
    let per = (progs.len() + n_batches - 1) / n_batches.max(1);
    let mut batch_files = vec![];
    for (bi, chunk) in progs.chunks(per.max(1)).enumerate() {
        let mut s = String::new();
        for p in chunk {
            s.push_str(&format!("@@@PROGRAM {}\n{}", p.idx, p.text));
        }
        let f = work.dir.join(format!("batch{bi}.dfir"));
        if let Err(e) = std::fs::write(&f, s) {
            eprintln!("HARNESS: cannot write {}: {e}", f.display());
            return 2;
        }
        batch_files.push(f);
    }
    let jobs: Vec<(usize, usize)> = (0..batch_files.len()).flat_map(|b| (0..cfgs.len()).map(move |c| (b, c))).collect();
    let next = AtomicUsize::new(0);
    let results: Mutex<Vec<Option<Result<(BTreeMap<u64, PLine>, u64), String>>>> = Mutex::new((0..jobs.len()).map(|_| None).collect());
    let child = bin("compile_dump_dfir");
    let reps_s = reps.to_string();
    let tb = Instant::now();
    std::thread::scope(|s| {
        for _ in 0..args.threads.max(1) {
            s.spawn(|| {
                loop {
                    let j = next.fetch_add(1, Ordering::Relaxed);
                    if j >= jobs.len() {
                        break;
                    }
                    let (b, c) = jobs[j];
                    let r = run_child(&child, &[batch_files[b].to_str().unwrap_or(""), "--reps", &reps_s], cfgs[c], &[])
                        .and_then(|o| parse_plines(&o));
                    results.lock().unwrap()[j] = Some(r);
                }
            });
        }
    });
    let batch_wall = tb.elapsed().as_secs_f64();
    let results = results.into_inner().unwrap();
    // lines[cfg][program idx]
    let mut lines: Vec<BTreeMap<u64, PLine>> = (0..cfgs.len()).map(|_| BTreeMap::new()).collect();
    let mut pipeline_runs = 0u64;
    for (j, r) in results.into_iter().enumerate() {
        match r {
            Some(Ok((m, runs))) => {
                pipeline_runs += runs;
                lines[jobs[j].1].extend(m);
            }
            Some(Err(e)) => {
                eprintln!("HARNESS: child failed: {e}");
                return 2;
            }
            None => {
                eprintln!("HARNESS: job {j} did not run");
                return 2;
            }
        }
    }
    for (c, l) in lines.iter().enumerate() {
        if l.len() != progs.len() {
            eprintln!("HARNESS: configuration {} reported {} programs, expected {}", cfgs[c].label(), l.len(), progs.len());
            return 2;
        }
    }

    // 5. compare
    // class -> (program, cfg a, cfg b)
    let mut found: BTreeMap<String, (&Prog, Cfg, Cfg)> = BTreeMap::new();
    let mut diff_programs = BTreeSet::new();
    let mut ok_programs = 0u64;
    let mut nontrivial = BTreeSet::new();
    let mut err_programs = vec![];
    let last = cfgs.len() - 1;
    for p in &progs {
        let l0 = &lines[0][&p.idx];
        if l0.status == "ok" {
            ok_programs += 1;
            if p.multi {
                nontrivial.insert(p.hash);
            }
        } else if err_programs.len() < 5 {
            err_programs.push(p.idx);
        }
        for (c, cfg) in cfgs.iter().enumerate() {
            let l = &lines[c][&p.idx];
            if let Some(r) = l.inproc.strip_prefix("DIFF:") {
                let art = r.split(':').next().unwrap_or("?");
                keep_smallest(&mut found, format!("dfir/inproc/{art}"), p, *cfg, *cfg);
                diff_programs.insert(p.idx);
            }
            if c == 0 {
                continue;
            }
            if c == last {
                if let Some(art) = first_diff(l0, l) {
                    keep_smallest(&mut found, format!("dfir/sameconfig/{art}"), p, cfgs[0], *cfg);
                    diff_programs.insert(p.idx);
                }
            } else if c == 1 {
                // same hash seed, ASLR on vs off
                if let Some(art) = first_diff(l0, l) {
                    keep_smallest(&mut found, format!("dfir/aslr/{art}"), p, cfgs[0], *cfg);
                    diff_programs.insert(p.idx);
                }
            } else {
                // other hash seed: compare with hash seed 0 under the same ASLR setting
                let r = if cfg.aslr { 1 } else { 0 };
                if let Some(art) = first_diff(&lines[r][&p.idx], l) {
                    keep_smallest(&mut found, format!("dfir/hashseed/{art}"), p, cfgs[r], *cfg);
                    diff_programs.insert(p.idx);
                }
            }
        }
    }
    // reach probes: features of the generated programs that the mutants of sensitivity/C42.md need
    let mut reach: BTreeMap<&'static str, u64> = BTreeMap::new();
    for p in &progs {
        if lines[0][&p.idx].status != "ok" {
            continue;
        }
        let t = &p.text;
        let n_defer = t.matches("defer_tick").count();
        let n_loops = t.matches("loop {").count();
        let feats: [(&'static str, bool); 10] = [
            ("loop_block", n_loops >= 1),
            ("nested_loop_block", t.contains("    loop {")),
            ("several_loop_blocks", t.lines().filter(|l| l.starts_with("loop {")).count() >= 2),
            ("two_or_more_defer_tick_handoffs", n_defer >= 2),
            ("two_or_more_defer_tick_in_one_loop", p.stmts.iter().any(|s| s.starts_with("loop {") && s.matches("defer_tick").count() >= 2)),
            ("defer_tick_cycle_top_level", t.contains("cyc")),
            ("singleton_or_handoff_reference", t.contains("#sg") || t.contains("#stv") || t.contains("#{")),
            ("access_group_reference", t.contains("#{")),
            ("tee_or_union_with_3plus_legs", t.contains("[2]")),
            ("twenty_or_more_statements", p.stmts.len() >= 20),
        ];
        for (k, hit) in feats {
            *reach.entry(k).or_default() += hit as u64;
        }
    }
    let evaluations = progs.len() as u64 * cfgs.len() as u64;
    println!(
        "dfir leg: {} distinct programs ({} compiled, {} with a multi-input/-output operator) x {} configurations = {} compared compilations, {} pipeline runs, {:.1}s; programs with differences: {}",
        progs.len(), ok_programs, nontrivial.len(), cfgs.len(), evaluations, pipeline_runs, batch_wall, diff_programs.len()
    );
    if (ok_programs as usize) * 10 < progs.len() * 8 {
        eprintln!(
            "HARNESS: only {ok_programs}/{} generated programs pass dfir_lang (first failing indexes {err_programs:?}) — the generator no longer matches the surface syntax",
            progs.len()
        );
        return 2;
    }

    // 6. violations: minimise, replay file, fresh-process confirmation
    let findings = load_findings();
    let mut exit = 0;
    let mut reported = 0u64;
    let mut viol_json = vec![];
    for (n, (class, (p, a, b))) in found.iter().take(4).enumerate() {
        // reproduce first (full bytes this time)
        let repro = same_class(&work, &p.text, *a, *b, reps, class, "repro");
        match repro {
            Ok(true) => {}
            Ok(false) => {
                eprintln!("HARNESS: difference {class} of program {} did not reproduce ({} vs {})", p.idx, a.label(), b.label());
                return 2;
            }
            Err(e) => {
                eprintln!("HARNESS: {e}");
                return 2;
            }
        }
        let (min, tests) = minimise(&work, &p.stmts, *a, *b, reps, class);
        let text: String = min.iter().map(|s| format!("{s}\n")).collect();
        let d = match compare_program(&work, &text, *a, *b, reps, "final", class.contains("/inproc/")) {
            Ok(Some(d)) if d.class == *class => d,
            _ => DiffFound { class: class.clone(), detail: String::new() },
        };
        let path = write_replay(args.seed, p.idx, &text, p.stmts.len(), *a, *b, reps, &d, n);
        let out = Command::new(&exe).args([PROP, "--replay", path.to_str().unwrap_or("")]).output();
        let confirmed = match &out {
            Ok(o) => String::from_utf8_lossy(&o.stdout).contains(&format!("REPLAY-VIOLATION class={class}")),
            Err(_) => false,
        };
        if !confirmed {
            eprintln!("HARNESS: violation {class} did not reproduce from {} in a fresh process", path.display());
            return 2;
        }
        if let Some(f) = known_for(&findings, PROP, class) {
            println!("KNOWN-FINDING: property={PROP} {}", f.what);
            viol_json.push(json!({"class": class, "known_finding": true, "replay": path, "detail": d.detail}));
            continue;
        }
        println!(
            "violation class={class} program={} statements {} -> {} ({} minimiser tests): {}",
            p.idx,
            p.stmts.len(),
            min.len(),
            tests,
            d.detail
        );
        println!("VIOLATION property={PROP} replay={}", path.display());
        viol_json.push(json!({"class": class, "known_finding": false, "replay": path, "detail": d.detail}));
        reported += 1;
        exit = 1;
    }

    // 7. Hydro leg (second priority; skipped when its child is not built)
    let hydro = if args.no_hydro { json!({"skipped": "--no-hydro"}) } else { crate::hydro::run_leg(args, &work, &mut exit, &mut reported, &mut viol_json) };
    if exit == 2 {
        return 2;
    }

    // 8. evidence
    let samples: Vec<Value> = progs
        .iter()
        .filter(|p| p.multi && lines[0][&p.idx].status == "ok")
        .take(3)
        .chain(progs.iter().filter(|p| p.stmts.len() > 25 && lines[0][&p.idx].status == "ok").take(1))
        .map(|p| {
            let l = &lines[0][&p.idx];
            json!({
                "program_index": p.idx, "statements": p.stmts.len(), "program": p.text,
                "status": l.status, "digests_under_every_configuration": {"json": l.parts[0], "surface": l.parts[1], "mermaid": l.parts[2], "code": l.parts[3]},
            })
        })
        .collect();
    let wall = t0.elapsed().as_secs_f64();
    let per_hour = if batch_wall > 0.0 { evaluations as f64 / batch_wall * 3600.0 } else { 0.0 };
    let ev = json!({
        "property_id": PROP,
        "tier": args.tier,
        "seed": args.seed,
        "level": "exploration",
        "coverage": {
            "evaluations": evaluations + hydro["evaluations"].as_u64().unwrap_or(0),
            "dfir_evaluations": evaluations,
            "hydro_evaluations": hydro["evaluations"].as_u64().unwrap_or(0),
            "distinct_nontrivial": nontrivial.len(),
            "rule": "DFIR programs are generated from VERIF_SEED by a typed grammar over the operator catalogue (sources, unary chains, tee/union with 2-6 legs, join/cross_join/anti_join/difference/zip/chain/cross_singleton/defer_signal, unzip/partition/demux_enum/state, fold/reduce/*_keyed, singleton()/optional()/handoff() with #refs and access groups, defer_tick cycles, 7 loop-block templates, shuffled statement order). One evaluation = one program compiled by the real dfir_lang pipeline in one child process under one (hash seed, ASLR) configuration (each child additionally recompiles it on a fresh thread with new RandomState keys and compares bytes in-process); all configurations of a program must agree byte-for-byte on graph JSON, surface syntax, mermaid and prettyplease'd code (digest = length + 128-bit hash over the bytes; full texts are compared again when a digest differs). distinct_nontrivial = DFIR programs distinct by text hash that compiled successfully and contain at least one multi-input or multi-output operator (Hydro flows are not counted into it). Hydro leg: every flow of a fixed corpus (hydro_test's embedded/local/cluster flows incl. two-phase commit and Paxos) is built by hydro_lang in a child per configuration and its IR text, per-location DFIR (mermaid/surface/JSON/tokens) and generate_embedded code are compared the same way; evaluations = dfir_evaluations + hydro_evaluations.",
            "samples": samples,
            "exhaustive": false,
            "programs_generated": n_prog,
            "programs_distinct": progs.len(),
            "programs_compiled_ok": ok_programs,
            "programs_rejected_by_dfir_lang": progs.len() as u64 - ok_programs,
            "configurations": cfgs.len(),
            "hash_seeds": n_seeds,
            "aslr_settings": ["off (personality ADDR_NO_RANDOMIZE)", "on"],
            "inproc_recompiles_per_child_compile": reps,
            "compile_pipeline_runs": pipeline_runs,
            "programs_with_differences": diff_programs.len(),
            "seam_probe": probe.report,
            "reach_probes": reach,
            "runs_per_hour": per_hour as u64,
            "seeds_per_hour": if wall > 0.0 { (3600.0 / wall) as u64 } else { 0 },
            "simulated_time": {"unit": "compile pipeline runs", "total": pipeline_runs},
            "faults_fired": {"hash_seed_changed": (progs.len() as u64) * (n_seeds - 1), "aslr_toggled": progs.len() as u64, "fresh_thread_random_state": pipeline_runs},
            "real_components": ["dfir_lang::parse::DfirCode (syn parser)", "dfir_lang::graph::FlatGraphBuilder", "eliminate_extra_unions_tees", "partition_graph (flat_to_partitioned.rs, graph_algorithms.rs)", "DfirGraph::as_code / serde / surface_syntax_string / to_mermaid (meta_graph.rs)", "prettyplease", "std RandomState / hashbrown / slotmap::SparseSecondaryMap"],
            "stub_components": ["OS randomness: getrandom(2), getentropy, syscall(SYS_getrandom) served by /verif/e7_seedsim/shim.so from SplitMix64(VERIF_HASH_SEED)", "address-space layout: only switched on/off (personality), not seeded"],
            "determinism_selftest_programs": st_n,
            "violation_details": viol_json,
            "hydro_leg": hydro,
            "engine": ENGINE,
            "repo_head": repo_head(),
        },
        "assumptions": [
            "sampled: a clean batch is evidence, not proof; program space limited to what the generator's grammar expresses (no modules/import!, no source_file/source_json/dest_file arguments beyond parsing)",
            "rustc is not part of the compared pipeline: the property's 'generated Rust code' is the token stream dfir_lang emits (prettyplease'd), not the machine code",
            "the only randomness a compile run meets is getrandom-family calls (owned by the shim) and address-space layout (toggled, not owned); /dev/urandom reads or time-based seeds would not be owned",
            "ASLR-induced differences cannot be replayed from a seed; such a class is retried up to 16 times at replay",
        ],
        "wall_s": wall,
        "violations": reported,
    });
    let evdir = verif_dir().join("evidence");
    let _ = std::fs::create_dir_all(&evdir);
    if let Err(e) = std::fs::write(evdir.join(format!("{PROP}.json")), serde_json::to_string_pretty(&ev).unwrap_or_default()) {
        eprintln!("HARNESS: cannot write evidence: {e}");
        return 2;
    }
    println!(
        "done property={PROP} programs={} configurations={} evaluations={} (dfir {} + hydro {}) nontrivial_distinct={} pipeline_runs={} wall={:.1}s violations={}",
        progs.len(), cfgs.len(), evaluations + hydro["evaluations"].as_u64().unwrap_or(0), evaluations, hydro["evaluations"].as_u64().unwrap_or(0), nontrivial.len(), pipeline_runs, wall, reported
    );
    if exit == 0 && progs.len() >= 200 {
        // `access_group_reference` is reported but not required (about 2 % of the programs)
        let missing: Vec<&&str> = reach.iter().filter(|(k, v)| **v == 0 && **k != "access_group_reference").map(|(k, _)| k).collect();
        if !missing.is_empty() || reach.len() < 10 {
            eprintln!("HARNESS: reach probes stuck at zero: {missing:?} — the generated programs no longer reach what the check claims");
            return 2;
        }
    }
    if exit == 0 && nontrivial.len() < 2 {
        eprintln!("HARNESS: fewer than 2 distinct non-trivial programs");
        return 2;
    }
    exit
}
