//! Seeded generator of DFIR programs (surface syntax) for the C42 compile-determinism check.
//!
//! Programs only have to pass the `dfir_lang` front end (parse -> flat graph -> partition ->
//! `as_code`), rustc never sees them; nevertheless they are built from well-typed templates over
//! two item types (`i64` scalars `S` and `(i64, i64)` pairs `P`) so that they look like the
//! programs in `/repo/dfir_rs/tests/surface_*.rs`.  All choices come from the `Sim`.

use simcore::Sim;

#[derive(Clone, Copy, PartialEq, Eq, Debug)]
pub enum Ty {
    S,
    P,
}

#[derive(Clone, Debug)]
struct Open {
    expr: String,
    ty: Ty,
}

#[derive(Clone, Debug)]
struct Single {
    name: String,
    /// 0 = singleton(), 1 = optional(), 2 = handoff()
    kind: u8,
    grouped: bool,
    next_group: u32,
}

pub struct Program {
    /// Top-level statements (a `loop { .. };` block is one statement).
    pub stmts: Vec<String>,
}
impl Program {
    pub fn text(&self) -> String {
        let mut s = String::new();
        for st in &self.stmts {
            s.push_str(st);
            s.push('\n');
        }
        s
    }
}

/// Operators with several inputs or several outputs: a program containing one of them is
/// "non-trivial" for the evidence rule (partitioning has to order/merge legs).
pub const MULTI_OPS: &[&str] = &[
    "union(", "tee(", "join", "cross_join", "anti_join", "difference", "zip", "chain(", "chain_first_n", "cross_singleton",
    "defer_signal", "unzip(", "partition(", "demux_enum", "state::", "state(", "state_by",
];

pub fn is_multi(text: &str) -> bool {
    MULTI_OPS.iter().any(|m| text.contains(m))
}

struct Knobs {
    explicit_ports: u64, // /8 probability that union/tee legs get explicit ports
    w: [u64; 10],        // step weights
    single_ref: u64,     // /8 probability that a closure references a singleton when one exists
    shuffle: bool,
    chain_max: u64,
}

struct G<'a> {
    sim: &'a mut Sim,
    stmts: Vec<String>,
    open: Vec<Open>,
    singles: Vec<Single>,
    n: usize,
    k: Knobs,
    loops: usize,
}

pub fn generate(sim: &mut Sim) -> Program {
    // knobs first (swarm style)
    let size_class = sim.weighted("size", &[3, 4, 3, 1]);
    let steps = match size_class {
        0 => sim.choose("steps", 1, 4),
        1 => sim.choose("steps", 4, 12),
        2 => sim.choose("steps", 12, 30),
        _ => sim.choose("steps", 30, 50),
    };
    let n_src = 1 + sim.choose("n_src", 0, (1 + steps / 6).min(6));
    let mut w = [0u64; 10];
    // 0 unary, 1 tee, 2 union, 3 binary, 4 multi-out, 5 singleton, 6 cycle, 7 loop, 8 source, 9 sink
    let base = [4u64, 4, 4, 4, 2, 2, 2, 2, 1, 1];
    for i in 0..10 {
        // each class is enabled with probability 3/4; unary always
        w[i] = if i == 0 || sim.flip("w_on", 3, 4) { base[i] * (1 + sim.choose("w_mul", 0, 2)) } else { 0 };
    }
    let k = Knobs {
        explicit_ports: sim.choose("k_ports", 0, 8),
        w,
        single_ref: sim.choose("k_sref", 0, 6),
        shuffle: sim.flip("k_shuffle", 1, 2),
        chain_max: sim.choose("k_chain", 0, 3),
    };
    let mut g = G { sim, stmts: vec![], open: vec![], singles: vec![], n: 0, k, loops: 0 };
    for _ in 0..n_src {
        g.step_source();
    }
    for _ in 0..steps {
        if g.open.is_empty() {
            g.step_source();
        }
        let w = g.k.w;
        match g.sim.weighted("step", &w) {
            0 => g.step_unary(),
            1 => g.step_tee(),
            2 => g.step_union(),
            3 => g.step_binary(),
            4 => g.step_multi_out(),
            5 => g.step_singleton(),
            6 => g.step_cycle(),
            7 => g.step_loop(),
            8 => g.step_source(),
            _ => g.step_sink(),
        }
    }
    while !g.open.is_empty() {
        g.step_sink();
    }
    let mut stmts = g.stmts;
    if g.k.shuffle {
        // Fisher-Yates with recorded decisions
        for i in (1..stmts.len()).rev() {
            let j = g.sim.choose_usize("shuf", 0, i);
            stmts.swap(i, j);
        }
    }
    Program { stmts }
}

impl G<'_> {
    fn fresh(&mut self, p: &str) -> String {
        self.n += 1;
        format!("{p}{}", self.n)
    }

    fn take(&mut self) -> Open {
        if self.open.is_empty() {
            self.step_source();
        }
        let i = self.sim.choose_usize("take", 0, self.open.len() - 1);
        self.open.swap_remove(i)
    }

    fn take_ty(&mut self, ty: Ty) -> String {
        let o = self.take();
        self.coerce(o, ty)
    }

    fn coerce(&mut self, o: Open, ty: Ty) -> String {
        match (o.ty, ty) {
            (Ty::S, Ty::P) => {
                let m = self.sim.choose("co_mod", 2, 7);
                format!("{} -> map(|x: i64| (x % {m}, x))", o.expr)
            }
            (Ty::P, Ty::S) => format!("{} -> map(|(k, v): (i64, i64)| k + v)", o.expr),
            _ => o.expr,
        }
    }

    fn sref(&mut self) -> Option<String> {
        if self.singles.is_empty() || !self.sim.flip("sref", self.k.single_ref, 8) {
            return None;
        }
        let i = self.sim.choose_usize("sref_i", 0, self.singles.len() - 1);
        let s = &mut self.singles[i];
        let r = if s.grouped {
            let gnum = s.next_group;
            s.next_group += 1;
            format!("#{{{gnum}}} {}", s.name)
        } else {
            format!("#{}", s.name)
        };
        Some(match s.kind {
            0 => format!("*{r}"),
            1 => format!("{r}.unwrap_or(0)"),
            _ => format!("({r}.len() as i64)"),
        })
    }

    /// One unary operator (possibly two glued ones) from `ty`; returns (text, out type).
    fn unary(&mut self, ty: Ty, in_loop: bool) -> (String, Ty) {
        let pers = ["", "::<'tick>", "::<'static>"];
        let c = self.sim.choose("c", 1, 9);
        let sr = self.sref();
        let any: u64 = 12;
        let pick = if ty == Ty::S { self.sim.choose("u_s", 0, any + 13) } else { self.sim.choose("u_p", 0, any + 8) };
        if pick < any {
            let t = match pick {
                0 => "identity()".to_string(),
                1 => {
                    if ty == Ty::S { "identity::<i64>()".to_string() } else { "identity::<(i64, i64)>()".to_string() }
                }
                2 => format!("unique{}()", pers[self.sim.choose_usize("pers", 0, 2)]),
                3 => "sort()".to_string(),
                4 => "persist::<'static>()".to_string(),
                5 => {
                    if in_loop { "identity()".to_string() } else { "defer_tick()".to_string() }
                }
                6 => {
                    if in_loop { "multiset_delta()".to_string() } else { "defer_tick_lazy()".to_string() }
                }
                7 => "multiset_delta()".to_string(),
                8 => "inspect(|x| println!(\"{:?}\", x))".to_string(),
                9 => {
                    if in_loop { "identity()".to_string() } else { "identity() -> handoff() -> identity()".to_string() }
                }
                10 => "map(|x| async move { x }) -> resolve_futures_ordered()".to_string(),
                _ => format!("_counter(\"tag{c}\", std::time::Duration::from_secs({c}))"),
            };
            return (t, ty);
        }
        let pick = pick - any;
        if ty == Ty::S {
            let add = sr.clone().unwrap_or_else(|| c.to_string());
            match pick {
                0 => (format!("map(|x: i64| x + {add})"), Ty::S),
                1 => (format!("map(|x| x * {c})"), Ty::S),
                2 => (format!("filter(|x: &i64| *x % {} != {add} % 2)", c + 1), Ty::S),
                3 => (format!("filter_map(|x: i64| if x > {add} {{ Some(x - 1) }} else {{ None }})"), Ty::S),
                4 => (format!("flat_map(|x: i64| [x, x + {c}])"), Ty::S),
                5 => ("map(|x: i64| vec![x, x]) -> flatten()".to_string(), Ty::S),
                6 => ("sort_by_key(|x: &i64| -*x)".to_string(), Ty::S),
                7 => ("enumerate() -> map(|(i, x): (usize, i64)| x + i as i64)".to_string(), Ty::S),
                8 => (
                    format!(
                        "scan{}(|| 0i64, |acc: &mut i64, x: i64| {{ *acc += x; Some(*acc) }})",
                        pers[self.sim.choose_usize("pers", 0, 2)]
                    ),
                    Ty::S,
                ),
                9 => (
                    format!("fold{}(|| {c}i64, |a: &mut i64, b: i64| *a += b)", pers[self.sim.choose_usize("pers", 0, 2)]),
                    Ty::S,
                ),
                10 => (
                    format!("reduce{}(|a: &mut i64, b: i64| *a = (*a).max(b))", pers[self.sim.choose_usize("pers", 0, 2)]),
                    Ty::S,
                ),
                11 => ("map(Max::new) -> lattice_reduce() -> map(|m: Max<i64>| m.into_reveal())".to_string(), Ty::S),
                12 => (format!("map(|x: i64| (x % {}, x))", c + 1), Ty::P),
                _ => ("enumerate() -> map(|(i, x): (usize, i64)| (i as i64, x))".to_string(), Ty::P),
            }
        } else {
            let add = sr.unwrap_or_else(|| c.to_string());
            match pick {
                0 => (format!("map(|(k, v): (i64, i64)| (v, k + {add}))"), Ty::P),
                1 => (format!("filter(|(k, _): &(i64, i64)| *k >= {add} - {c})"), Ty::P),
                2 => (
                    format!(
                        "fold_keyed{}(|| 0i64, |acc: &mut i64, v: i64| *acc += v)",
                        pers[self.sim.choose_usize("pers", 0, 2)]
                    ),
                    Ty::P,
                ),
                3 => (
                    format!("reduce_keyed{}(|a: &mut i64, b: i64| *a += b)", pers[self.sim.choose_usize("pers", 0, 2)]),
                    Ty::P,
                ),
                4 => ("sort_by_key(|(k, _): &(i64, i64)| *k)".to_string(), Ty::P),
                5 => ("fold_keyed::<'tick, i64, i64>(|| 0, |acc: &mut i64, v| *acc = (*acc).max(v))".to_string(), Ty::P),
                6 => (format!("flat_map(|(k, v): (i64, i64)| [(k, v), (k + {c}, v)])"), Ty::P),
                7 => (format!("map(|(k, v): (i64, i64)| k * {c} + v)"), Ty::S),
                _ => ("map(|(k, v)| k + v)".to_string(), Ty::S),
            }
        }
    }

    /// ` -> op -> op ...` with up to `max` operators; returns the text (possibly empty) and type.
    fn chain(&mut self, mut ty: Ty, max: u64, in_loop: bool) -> (String, Ty) {
        let n = self.sim.choose("chain_n", 0, max);
        let mut s = String::new();
        for _ in 0..n {
            let (t, o) = self.unary(ty, in_loop);
            s.push_str(" -> ");
            s.push_str(&t);
            ty = o;
        }
        (s, ty)
    }

    /// A chain that ends with the type it started with.
    fn chain_same(&mut self, ty: Ty, max: u64, in_loop: bool) -> String {
        let (mut s, o) = self.chain(ty, max, in_loop);
        if o != ty {
            s.push_str(match ty {
                Ty::S => " -> map(|(k, v): (i64, i64)| k - v)",
                Ty::P => " -> map(|x: i64| (x, x))",
            });
        }
        s
    }

    fn sink(&mut self, ty: Ty) -> String {
        let id = self.fresh("out");
        match self.sim.choose("sink", 0, 6) {
            0 | 1 => format!("for_each(|x| {id}.send(x).unwrap())"),
            2 => "null()".to_string(),
            3 => format!("dest_sink({id})"),
            4 => "for_each(drop)".to_string(),
            5 => match ty {
                Ty::S => format!("for_each(|x: i64| {id}.borrow_mut().push(x))"),
                Ty::P => format!("for_each(|(k, v): (i64, i64)| {{ {id}.borrow_mut().insert(k, v); }})"),
            },
            _ => "assert(|_| true) -> null()".to_string(),
        }
    }

    fn step_source(&mut self) {
        let name = self.fresh("src");
        let a = self.sim.choose("src_a", 0, 9);
        let b = a + self.sim.choose("src_b", 1, 20);
        let (text, ty) = match self.sim.choose("src", 0, 6) {
            0 => (format!("source_iter({a}..{b}_i64)"), Ty::S),
            1 => (format!("source_iter([{a}_i64, {b}, {}])", a + b), Ty::S),
            2 => (format!("source_stream({name}_recv)"), Ty::S),
            3 => (format!("source_iter(({a}..{b}_i64).map(|x| (x % 3, x)))"), Ty::P),
            4 => (format!("source_stream({name}_recv)"), Ty::P),
            5 => (format!("source_iter(vec![({a}_i64, {b}_i64), ({b}, {a})])"), Ty::P),
            _ => ("initialize() -> map(|()| 1_i64)".to_string(), Ty::S),
        };
        let cm = self.k.chain_max;
        let (ch, ty) = self.chain(ty, cm, false);
        self.stmts.push(format!("{name} = {text}{ch};"));
        self.open.push(Open { expr: name, ty });
    }

    fn step_unary(&mut self) {
        let o = self.take();
        let name = self.fresh("v");
        let cm = self.k.chain_max + 1;
        let (t0, ty0) = self.unary(o.ty, false);
        let (ch, ty) = self.chain(ty0, cm, false);
        self.stmts.push(format!("{name} = {} -> {t0}{ch};", o.expr));
        self.open.push(Open { expr: name, ty });
    }

    fn step_tee(&mut self) {
        let o = self.take();
        let name = self.fresh("t");
        let (ch, ty) = self.chain(o.ty, self.k.chain_max, false);
        self.stmts.push(format!("{name} = {}{ch} -> tee();", o.expr));
        let legs = 2 + self.sim.weighted("tee_legs", &[5, 3, 2, 1, 1]);
        let ports = self.sim.flip("tee_ports", self.k.explicit_ports, 8);
        for i in 0..legs {
            let expr = if ports { format!("{name}[{i}]") } else { name.clone() };
            self.open.push(Open { expr, ty });
        }
    }

    fn step_union(&mut self) {
        let legs = 2 + self.sim.weighted("union_legs", &[5, 3, 2, 1, 1]);
        while self.open.len() < legs {
            if self.sim.flip("union_newsrc", 1, 2) {
                self.step_source();
            } else {
                break;
            }
        }
        let legs = legs.min(self.open.len()).max(1);
        let ty = if self.sim.flip("union_ty", 1, 2) { Ty::S } else { Ty::P };
        let name = self.fresh("u");
        let ports = self.sim.flip("union_ports", self.k.explicit_ports, 8);
        let mut legs_txt = vec![];
        for i in 0..legs {
            let src = self.take_ty(ty);
            if ports {
                legs_txt.push(format!("{src} -> [{i}]{name};"));
            } else {
                legs_txt.push(format!("{src} -> {name};"));
            }
        }
        let (ch, ty) = self.chain(ty, self.k.chain_max, false);
        let def = format!("{name} = union(){ch};");
        if self.sim.flip("union_def_first", 1, 2) {
            self.stmts.push(def);
            self.stmts.extend(legs_txt);
        } else {
            self.stmts.extend(legs_txt);
            self.stmts.push(def);
        }
        self.open.push(Open { expr: name, ty });
    }

    fn step_binary(&mut self) {
        let name = self.fresh("j");
        let pers2 = ["", "::<'tick>", "::<'static>", "::<'tick, 'static>", "::<'static, 'tick>", "::<'tick, 'tick>", "::<'static, 'static>"];
        let p2 = pers2[self.sim.choose_usize("pers2", 0, 6)];
        let which = self.sim.choose("bin", 0, 12);
        // (operator text, port a, ty a, port b, ty b, post map, out ty)
        let (op, pa, ta, pb, tb, post, out): (String, &str, Ty, &str, Ty, &str, Ty) = match which {
            0 | 1 => (format!("join{p2}()"), "0", Ty::P, "1", Ty::P, " -> map(|(k, (a, b)): (i64, (i64, i64))| (k, a + b))", Ty::P),
            2 => (format!("join_multiset{p2}()"), "0", Ty::P, "1", Ty::P, " -> map(|(k, (a, b))| (k, a - b))", Ty::P),
            3 => (format!("cross_join{p2}()"), "0", Ty::S, "1", Ty::S, "", Ty::P),
            4 => (format!("cross_join_multiset{p2}()"), "0", Ty::S, "1", Ty::S, "", Ty::P),
            5 => (format!("anti_join{p2}()"), "pos", Ty::P, "neg", Ty::S, "", Ty::P),
            6 => (format!("difference{p2}()"), "pos", Ty::S, "neg", Ty::S, "", Ty::S),
            7 => (format!("zip{p2}()"), "0", Ty::S, "1", Ty::S, "", Ty::P),
            8 => ("chain()".to_string(), "0", Ty::P, "1", Ty::P, "", Ty::P),
            9 => ("cross_singleton()".to_string(), "input", Ty::S, "single", Ty::S, "", Ty::P),
            10 => ("defer_signal()".to_string(), "input", Ty::S, "signal", Ty::P, "", Ty::S),
            11 => ("join_multiset_half()".to_string(), "build", Ty::P, "probe", Ty::P, " -> map(|(k, (a, b))| (k, a * b))", Ty::P),
            _ => ("zip_longest()".to_string(), "0", Ty::S, "1", Ty::S, " -> map(|e| (0_i64, e.left().unwrap_or(0)))", Ty::P),
        };
        let a = self.take_ty(ta);
        let b = self.take_ty(tb);
        let (ch, ty) = self.chain(out, self.k.chain_max, false);
        let def = format!("{name} = {op}{post}{ch};");
        let la = format!("{a} -> [{pa}]{name};");
        let lb = format!("{b} -> [{pb}]{name};");
        match self.sim.choose("bin_order", 0, 2) {
            0 => self.stmts.extend([def, la, lb]),
            1 => self.stmts.extend([la, lb, def]),
            _ => self.stmts.extend([lb, def, la]),
        }
        self.open.push(Open { expr: name, ty });
    }

    fn step_multi_out(&mut self) {
        let name = self.fresh("m");
        match self.sim.choose("mo", 0, 4) {
            0 => {
                let src = self.take_ty(Ty::P);
                self.stmts.push(format!("{name} = {src} -> unzip();"));
                self.open.push(Open { expr: format!("{name}[0]"), ty: Ty::S });
                self.open.push(Open { expr: format!("{name}[1]"), ty: Ty::S });
            }
            1 => {
                let src = self.take_ty(Ty::S);
                let n = self.sim.choose_usize("part_n", 2, 5);
                let names: Vec<String> = (0..n).map(|i| format!("p{}", (b'a' + i as u8) as char)).collect();
                let arms: Vec<String> =
                    names.iter().enumerate().map(|(i, p)| if i + 1 == n { format!("_ => {p}") } else { format!("{i} => {p}") }).collect();
                self.stmts.push(format!(
                    "{name} = {src} -> partition(|x: &i64, [{}]| match *x % {n} {{ {} }});",
                    names.join(", "),
                    arms.join(", ")
                ));
                for p in names {
                    self.open.push(Open { expr: format!("{name}[{p}]"), ty: Ty::S });
                }
            }
            2 => {
                let src = self.take_ty(Ty::S);
                let n = self.sim.choose_usize("part_n", 2, 5);
                self.stmts.push(format!("{name} = {src} -> partition(|x: &i64, len| (*x as usize) % len);"));
                for i in 0..n {
                    self.open.push(Open { expr: format!("{name}[{i}]"), ty: Ty::S });
                }
            }
            3 => {
                let src = self.take_ty(Ty::S);
                self.stmts.push(format!(
                    "{name} = {src} -> map(|x: i64| if x % 3 == 0 {{ Shape::Square(x) }} else if x % 3 == 1 {{ Shape::Circle {{ r: x }} }} else {{ Shape::Rect {{ w: x, h: x }} }}) -> demux_enum::<Shape>();"
                ));
                self.open.push(Open { expr: format!("{name}[Square] -> map(|(s,)| s)"), ty: Ty::S });
                self.open.push(Open { expr: format!("{name}[Circle] -> map(|(r,)| r)"), ty: Ty::S });
                self.open.push(Open { expr: format!("{name}[Rect]"), ty: Ty::P });
            }
            _ => {
                let src = self.take_ty(Ty::S);
                let p = ["", "::<'tick, Max<i64>>", "::<'static, Max<i64>>"][self.sim.choose_usize("st_p", 0, 2)];
                self.stmts.push(format!("{name} = {src} -> map(Max::new) -> state{p}();"));
                self.open.push(Open { expr: format!("{name}[items] -> map(|m: Max<i64>| m.into_reveal())"), ty: Ty::S });
                // the state port is a singleton-like output
                if self.sim.flip("st_single", 1, 2) {
                    let sn = self.fresh("stv");
                    self.stmts.push(format!("{sn} = {name}[state] -> map(|m: Max<i64>| m.into_reveal()) -> singleton();"));
                    self.singles.push(Single { name: sn, kind: 0, grouped: false, next_group: 0 });
                } else {
                    self.stmts.push(format!("{name}[state] -> null();"));
                }
            }
        }
    }

    fn step_singleton(&mut self) {
        let src = self.take_ty(Ty::S);
        let name = self.fresh("sg");
        let kind = self.sim.choose("sg_kind", 0, 2) as u8;
        let body = match kind {
            0 => format!("{src} -> fold(|| 0i64, |a: &mut i64, b: i64| *a = (*a).max(b)) -> singleton()"),
            1 => format!("{src} -> reduce(|a: &mut i64, b: i64| *a += b) -> optional()"),
            _ => format!("{src} -> handoff()"),
        };
        self.stmts.push(format!("{name} = {body};"));
        // optional pipe consumer: must be a pure sink (consumers of a referenced handoff are
        // ordered after every borrower, so nothing may flow from it back into a borrower)
        if self.sim.flip("sg_consumer", 1, 2) {
            let s = self.sink(Ty::S);
            self.stmts.push(format!("{name} -> {s};"));
        }
        if kind == 2 && self.sim.flip("sg_iter_ref", 1, 3) {
            let s = self.sink(Ty::S);
            self.stmts.push(format!("iter_ref(#{name}) -> map(|x: &i64| *x) -> {s};"));
        }
        let grouped = kind != 2 && self.sim.flip("sg_grouped", 1, 4);
        self.singles.push(Single { name, kind, grouped, next_group: 0 });
    }

    fn step_cycle(&mut self) {
        let o = self.take();
        let u = self.fresh("cyc");
        let ty = o.ty;
        let back = self.chain_same(ty, self.k.chain_max + 1, false);
        let dt = if self.sim.flip("cyc_lazy", 1, 3) { "defer_tick_lazy()" } else { "defer_tick()" };
        let legs = 1 + self.sim.choose_usize("cyc_legs", 0, 2);
        let filt = match ty {
            Ty::S => "filter(|x: &i64| *x < 100)",
            Ty::P => "filter(|(_, v): &(i64, i64)| *v < 100)",
        };
        self.stmts.push(format!("{u} = union() -> tee();"));
        self.stmts.push(format!("{} -> {u};", o.expr));
        self.stmts.push(format!("{u} -> {filt}{back} -> {dt} -> {u};"));
        for _ in 0..legs {
            self.open.push(Open { expr: u.clone(), ty });
        }
    }

    fn step_sink(&mut self) {
        if self.open.is_empty() {
            return;
        }
        let o = self.take();
        let (ch, ty) = self.chain(o.ty, self.k.chain_max, false);
        let s = self.sink(ty);
        self.stmts.push(format!("{}{ch} -> {s};", o.expr));
    }

    /// A named top-level stream to be consumed inside a loop block.
    fn loop_input(&mut self, ty: Ty) -> String {
        let src = self.take_ty(ty);
        let name = self.fresh("lin");
        self.stmts.push(format!("{name} = {src};"));
        name
    }

    fn step_loop(&mut self) {
        self.loops += 1;
        let ty = if self.sim.flip("loop_ty", 2, 3) { Ty::S } else { Ty::P };
        let cm = self.k.chain_max;
        let lazy = |g: &mut G<'_>| if g.sim.flip("loop_lazy", 1, 3) { "defer_tick_lazy()" } else { "defer_tick()" };
        let filt = match ty {
            Ty::S => "filter(|x: &i64| *x < 100)",
            Ty::P => "filter(|(_, v): &(i64, i64)| *v < 100)",
        };
        let mut b = String::from("loop {\n");
        match self.sim.choose("loop_t", 0, 6) {
            0 => {
                let i = self.loop_input(ty);
                let (ch, t2) = self.chain(ty, cm + 1, true);
                let s = self.sink(t2);
                b.push_str(&format!("    {i} -> batch(){ch} -> {s};\n"));
            }
            1 => {
                let i1 = self.loop_input(ty);
                let i2 = self.loop_input(ty);
                let m = self.fresh("lm");
                let tee = self.sim.flip("loop_tee", 1, 2);
                b.push_str(&format!("    {m} = union(){};\n", if tee { " -> tee()" } else { "" }));
                b.push_str(&format!("    {i1} -> batch() -> {m};\n"));
                b.push_str(&format!("    {i2} -> batch_lazy() -> {m};\n"));
                let outs = if tee { 1 + self.sim.choose_usize("loop_outs", 0, 2) } else { 1 };
                for _ in 0..outs {
                    let (ch, t2) = self.chain(ty, cm, true);
                    let s = self.sink(t2);
                    b.push_str(&format!("    {m}{ch} -> {s};\n"));
                }
            }
            2 => {
                // root loop with k defer_tick cycles
                let k = 1 + self.sim.choose_usize("loop_cycles", 0, 2);
                for _ in 0..k {
                    let i = self.loop_input(ty);
                    let m = self.fresh("lmerged");
                    let d = self.fresh("ldeferred");
                    let back = self.chain_same(ty, cm, true);
                    let dt = lazy(self);
                    let s = self.sink(ty);
                    b.push_str(&format!("    {m} = union() -> tee();\n"));
                    b.push_str(&format!("    {i} -> batch() -> {m};\n"));
                    b.push_str(&format!("    {d} -> {m};\n"));
                    b.push_str(&format!("    {m} -> {s};\n"));
                    b.push_str(&format!("    {m} -> {filt}{back} -> {dt} -> {d};\n"));
                    b.push_str(&format!("    {d} = identity();\n"));
                }
            }
            3 | 4 => {
                // nested loop, all_iterations out of the inner loop
                let i = self.loop_input(ty);
                let root = self.fresh("lroot");
                let out = self.fresh("lout");
                b.push_str(&format!("    {i} -> batch() -> {root};\n"));
                b.push_str(&format!("    {root} = identity();\n"));
                let inner = 1 + self.sim.choose_usize("loop_inner", 0, 2);
                let un = self.fresh("lall");
                if inner > 1 {
                    b.push_str(&format!("    {root}_t = {root} -> tee();\n"));
                }
                for n in 0..inner {
                    let m = self.fresh("lmerged");
                    let d = self.fresh("ldeferred");
                    let back = self.chain_same(ty, cm, true);
                    let dt = lazy(self);
                    let feed = if inner > 1 { format!("{root}_t") } else { root.clone() };
                    b.push_str("    loop {\n");
                    b.push_str(&format!("        {m} = union() -> tee();\n"));
                    b.push_str(&format!("        {feed} -> batch() -> {m};\n"));
                    b.push_str(&format!("        {d} -> {m};\n"));
                    b.push_str(&format!("        {m} -> {filt}{back} -> {dt} -> {d};\n"));
                    b.push_str(&format!("        {d} = identity();\n"));
                    b.push_str(&format!("        {m} -> {out}_{n};\n"));
                    b.push_str("    };\n");
                    if inner > 1 {
                        b.push_str(&format!("    {out}_{n} = all_iterations() -> {un};\n"));
                    } else {
                        let (ch, t2) = self.chain(ty, cm, true);
                        let s = self.sink(t2);
                        b.push_str(&format!("    {out}_{n} = all_iterations(){ch} -> {s};\n"));
                    }
                }
                if inner > 1 {
                    let (ch, t2) = self.chain(ty, cm, true);
                    let s = self.sink(t2);
                    b.push_str(&format!("    {un} = union(){ch} -> {s};\n"));
                }
            }
            5 => {
                // join of two batched inputs inside a loop
                let i1 = self.loop_input(Ty::P);
                let i2 = self.loop_input(Ty::P);
                let j = self.fresh("lj");
                let (ch, t2) = self.chain(Ty::P, cm, true);
                let s = self.sink(t2);
                b.push_str(&format!("    {j} = join() -> map(|(k, (a, b)): (i64, (i64, i64))| (k, a + b)){ch} -> {s};\n"));
                b.push_str(&format!("    {i1} -> batch() -> [0]{j};\n"));
                b.push_str(&format!("    {i2} -> batch() -> [1]{j};\n"));
            }
            _ => {
                // three levels (after test_batch_lazy_nested_no_stale_data)
                let t = self.loop_input(ty);
                let l = self.loop_input(ty);
                let p = self.fresh("n");
                let s = self.sink(ty);
                let dt = lazy(self);
                let back = self.chain_same(ty, cm, true);
                b.push_str(&format!(
                    "    {t} -> batch() -> {p}_trig;\n    {l} -> batch_lazy() -> {p}_lazy;\n    {p}_trig = identity();\n    {p}_lazy = identity();\n    loop {{\n        {p}_om = union() -> tee();\n        {p}_trig -> batch() -> {p}_om;\n        {p}_lazy -> batch_lazy() -> {p}_lo;\n        {p}_lo = identity();\n        {p}_od -> {p}_om;\n        {p}_om -> {filt}{back} -> {dt} -> {p}_od;\n        {p}_od = identity();\n        loop {{\n            {p}_io = union();\n            {p}_om -> batch() -> {p}_io;\n            {p}_lo -> batch_lazy() -> {p}_io;\n            {p}_io -> {p}_ir;\n        }};\n        {p}_ir = all_iterations() -> {p}_or;\n    }};\n    {p}_or = all_iterations() -> {s};\n"
                ));
            }
        }
        b.push_str("};");
        self.stmts.push(b);
    }
}
