//! Child of the E7 hash-seed engine: compiles DFIR program texts with the real `dfir_lang`
//! pipeline (the one `dfir_syntax!` runs: parse -> flat graph -> partition -> `as_code`) and
//! prints canonical text for byte comparison by the parent.
//!
//! usage: compile_dump_dfir <programs-file> [--full] [--reps N]
//!        compile_dump_dfir --ops
//!
//! programs-file: records `@@@PROGRAM <id>\n<text...>`.
//! Per program one line is printed:
//!   `P <id> <ok|err> json=<len>:<h128> surface=<len>:<h128> mermaid=<len>:<h128> code=<len>:<h128> inproc=<ok|DIFF:<artefact>:<rep>>`
//! `inproc` is the result of comparing the **bytes** of the first compilation against `--reps`
//! further compilations, each on a freshly spawned thread (a new thread draws new `RandomState`
//! keys from the -- shimmed -- `getrandom`).  With `--full` the four artefact texts follow.
//! Errors of the pipeline are reported as `err` (diagnostic text is not compared by the parent;
//! only the ok/err status is).

use std::fmt::Write as _;

use dfir_lang::graph::{BuildDfirCodeOutput, WriteConfig, build_dfir_code};
use dfir_lang::parse::DfirCode;

#[derive(Clone, PartialEq, Eq)]
struct Artefacts {
    ok: bool,
    /// json, surface, mermaid, code  (or [diagnostics, "", "", ""] when !ok).
    /// `code` is the generated token stream rendered by `TokenStream::to_string` (every token,
    /// in order); the prettyplease rendering of the same tokens is kept in `pretty` (only
    /// computed with `--full`, for readable differences).
    parts: [String; 4],
    pretty: String,
}

const NAMES: [&str; 4] = ["json", "surface", "mermaid", "code"];

fn err_art(msg: String) -> Artefacts {
    Artefacts { ok: false, parts: [msg, String::new(), String::new(), String::new()], pretty: String::new() }
}

fn compile(text: &str, pretty: bool) -> Artefacts {
    let parsed = match syn::parse_str::<DfirCode>(text) {
        Ok(p) => p,
        Err(e) => {
            return err_art(format!("parse error: {e}"));
        }
    };
    let root = quote::quote! { ::dfir_rs };
    let timing = std::env::var_os("VERIF_TIMING").is_some();
    if std::env::var_os("VERIF_E7_DEBUG_KEYS").is_some() {
        // shows which RandomState keys this compile thread drew (debugging aid for the seam)
        let s: std::collections::HashSet<u32> = (0..12).collect();
        eprintln!("debug-keys: {:?}", s.iter().collect::<Vec<_>>());
    }
    let t0 = std::time::Instant::now();
    match build_dfir_code(parsed, &root) {
        Ok(BuildDfirCodeOutput { partitioned_graph, code, diagnostics: _ }) => {
            let t1 = t0.elapsed();
            let json = serde_json::to_string(&partitioned_graph).unwrap_or_else(|e| format!("<serde error {e}>"));
            let surface = partitioned_graph.surface_syntax_string();
            let mermaid = partitioned_graph.to_mermaid(&WriteConfig::default());
            let t2 = t0.elapsed();
            let code_s = code.to_string();
            let pretty_s = if pretty {
                match syn::parse2::<syn::File>(quote::quote! { fn main() { let _df = #code; } }) {
                    Ok(file) => prettyplease::unparse(&file),
                    Err(e) => format!("<generated tokens do not parse as an expression: {e}>"),
                }
            } else {
                String::new()
            };
            if timing {
                eprintln!("timing: build_dfir_code {:?} json+surface+mermaid {:?} prettyplease {:?}", t1, t2 - t1, t0.elapsed() - t2);
            }
            Artefacts { ok: true, parts: [json, surface, mermaid, code_s], pretty: pretty_s }
        }
        Err(diags) => {
            let mut s = String::new();
            for d in diags.iter() {
                let _ = writeln!(s, "{:?}: {}", d.level, d.message);
            }
            err_art(s)
        }
    }
}

fn compile_on_fresh_thread(text: &str, pretty: bool) -> Artefacts {
    let t = text.to_string();
    std::thread::Builder::new()
        .stack_size(64 << 20)
        .spawn(move || std::panic::catch_unwind(|| compile(&t, pretty)))
        .expect("spawn")
        .join()
        .ok()
        .and_then(|r| r.ok())
        .unwrap_or_else(|| err_art("<panic in compile pipeline>".into()))
}

/// 128-bit digest: two independent 64-bit FNV-style streams over the bytes.
fn h128(s: &str) -> String {
    let mut a = 0xcbf2_9ce4_8422_2325u64;
    let mut b = 0x6c62_272e_07bb_0142u64;
    for &x in s.as_bytes() {
        a = (a ^ x as u64).wrapping_mul(0x0000_0100_0000_01B3);
        b = (b.rotate_left(5) ^ x as u64).wrapping_mul(0x9E37_79B9_7F4A_7C15);
    }
    format!("{a:016x}{b:016x}")
}

fn dump_ops() {
    use dfir_lang::graph::PortIndexValue;
    use dfir_lang::graph::ops::{OPERATORS, PortListSpec};
    for op in OPERATORS.iter() {
        let ports = |f: Option<fn() -> PortListSpec>| match f {
            None => "-".to_string(),
            Some(f) => match f() {
                PortListSpec::Variadic => "variadic".to_string(),
                PortListSpec::Fixed(p) => {
                    p.iter().map(|x| quote::ToTokens::to_token_stream(x).to_string()).collect::<Vec<_>>().join("|")
                }
            },
        };
        let delay0 = (op.input_delaytype_fn)(&PortIndexValue::Elided(None));
        println!(
            "{:32} inn={:?} out={:?} args={} persist={:?} types={:?} ext={} flo={:?} ports_inn={} ports_out={} delay_elided={:?}",
            op.name,
            op.hard_range_inn,
            op.hard_range_out,
            op.num_args,
            op.persistence_args,
            op.type_args,
            op.is_external_input,
            op.flo_type,
            ports(op.ports_inn),
            ports(op.ports_out),
            delay0
        );
    }
}

unsafe extern "C" {
    fn dlsym(handle: *mut core::ffi::c_void, symbol: *const core::ffi::c_char) -> *mut core::ffi::c_void;
}

/// Rewind the shim's random stream (no-op when the shim is not preloaded): the keys a program's
/// compilations see then depend on (VERIF_HASH_SEED, program) only, not on the batch position.
fn shim_reset() {
    unsafe {
        let p = dlsym(core::ptr::null_mut(), c"verif_shim_reset".as_ptr());
        if !p.is_null() {
            let f: extern "C" fn() = core::mem::transmute(p);
            f();
        }
    }
}

fn main() {
    let args: Vec<String> = std::env::args().skip(1).collect();
    if args.first().map(|s| s.as_str()) == Some("--ops") {
        dump_ops();
        return;
    }
    let mut file = None;
    let mut full = false;
    let mut reps = 2usize;
    let mut it = args.iter();
    while let Some(a) = it.next() {
        match a.as_str() {
            "--full" => full = true,
            "--reps" => reps = it.next().and_then(|s| s.parse().ok()).unwrap_or(2),
            s => file = Some(s.to_string()),
        }
    }
    let Some(file) = file else {
        eprintln!("usage: compile_dump_dfir <programs-file> [--full] [--reps N]");
        std::process::exit(2);
    };
    let text = match std::fs::read_to_string(&file) {
        Ok(t) => t,
        Err(e) => {
            eprintln!("cannot read {file}: {e}");
            std::process::exit(2);
        }
    };
    // silence panic messages of the pipeline (reported as `err`); keep the default hook otherwise
    std::panic::set_hook(Box::new(|_| {}));
    // Warm-up: dfir_lang keeps one lazily initialised global (the operator-name lookup table, a
    // std HashMap behind a OnceLock).  Whichever compilation initialises it draws one extra
    // `RandomState` on its thread, which shifts the keys of every later map of *that* compilation.
    // Initialising it here, on a throw-away thread, makes the keys a compilation sees a function
    // of (VERIF_HASH_SEED, program, repetition index) only -- independent of the position in a
    // batch -- so that a single-program replay meets exactly the keys of the batch run.
    let _ = compile_on_fresh_thread("source_iter(0..1) -> map(|x| x) -> for_each(|x| println!(\"{}\", x));", false);
    let mut out = String::new();
    let mut pipeline_runs = 0u64;
    for rec in text.split("@@@PROGRAM ").skip(1) {
        let (id, prog) = rec.split_once('\n').unwrap_or((rec, ""));
        let id = id.trim();
        shim_reset();
        let first = compile_on_fresh_thread(prog, full);
        pipeline_runs += 1;
        let mut inproc = "ok".to_string();
        let mut other: Option<Artefacts> = None;
        for r in 0..reps {
            let again = compile_on_fresh_thread(prog, full);
            pipeline_runs += 1;
            if again.ok != first.ok {
                inproc = format!("DIFF:status:{r}");
                other = Some(again);
                break;
            }
            if again.ok {
                if let Some(k) = (0..4).find(|&k| again.parts[k] != first.parts[k]) {
                    inproc = format!("DIFF:{}:{r}", NAMES[k]);
                    other = Some(again);
                    break;
                }
            }
        }
        let _ = write!(out, "P {id} {}", if first.ok { "ok" } else { "err" });
        for k in 0..4 {
            if first.ok {
                let _ = write!(out, " {}={}:{}", NAMES[k], first.parts[k].len(), h128(&first.parts[k]));
            } else {
                let _ = write!(out, " {}=0:-", NAMES[k]);
            }
        }
        let _ = writeln!(out, " inproc={inproc}");
        if full {
            for k in 0..4 {
                let _ = writeln!(out, "@@@BEGIN {id} {}", if first.ok { NAMES[k] } else { "diagnostics" });
                out.push_str(&first.parts[k]);
                if !first.parts[k].ends_with('\n') {
                    out.push('\n');
                }
                let _ = writeln!(out, "@@@END {id}");
                if !first.ok {
                    break;
                }
            }
            if first.ok {
                let _ = writeln!(out, "@@@BEGIN {id} pretty");
                out.push_str(&first.pretty);
                let _ = writeln!(out, "\n@@@END {id}");
            }
            if let Some(o) = &other {
                let _ = writeln!(out, "@@@BEGIN {id} inproc-other-pretty");
                out.push_str(&o.pretty);
                let _ = writeln!(out, "\n@@@END {id}");
                for k in 0..4 {
                    let _ = writeln!(out, "@@@BEGIN {id} inproc-other-{}", NAMES[k]);
                    out.push_str(&o.parts[k]);
                    if !o.parts[k].ends_with('\n') {
                        out.push('\n');
                    }
                    let _ = writeln!(out, "@@@END {id}");
                }
            }
        }
    }
    let _ = writeln!(out, "PIPELINE_RUNS {pipeline_runs}");
    print!("{out}");
}
