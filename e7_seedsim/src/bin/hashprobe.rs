//! Control child for the hash-seed seam: prints the iteration order of std `HashSet`s (and of a
//! `slotmap::SparseSecondaryMap`) created on the main thread and on sequentially spawned threads.
//! Under `LD_PRELOAD=shim.so` the output must be a pure function of `VERIF_HASH_SEED`.
use std::collections::{HashMap, HashSet};

fn order() -> String {
    let s: HashSet<u32> = (0..24).collect();
    let v: Vec<String> = s.iter().map(|x| x.to_string()).collect();
    v.join(",")
}

fn main() {
    println!("main  set: {}", order());
    println!("main  set2: {}", order());
    let m: HashMap<&str, u32> = ["a", "b", "c", "d", "e", "f", "g", "h", "i", "j", "k"].iter().map(|k| (*k, 1)).collect();
    println!("main  map: {}", m.keys().copied().collect::<Vec<_>>().join(","));
    for t in 0..3 {
        let line = std::thread::spawn(order).join().unwrap();
        println!("thread{t} set: {line}");
    }
    let mut sm = slotmap::SlotMap::<slotmap::DefaultKey, u32>::new();
    let keys: Vec<_> = (0..16).map(|i| sm.insert(i)).collect();
    let mut sp = slotmap::SparseSecondaryMap::<slotmap::DefaultKey, u32>::new();
    for (i, k) in keys.iter().enumerate() {
        sp.insert(*k, i as u32);
    }
    println!("sparse: {}", sp.iter().map(|(_, v)| v.to_string()).collect::<Vec<_>>().join(","));
    // is the shim really loaded?
    let loaded = unsafe { libc_dlsym_present() };
    println!("shim_loaded: {loaded}");
    // address-space probe (line is excluded from the seed comparison by the parent)
    let stack = 0u8;
    let heap = Box::new(0u8);
    println!("addr: stack={:p} heap={:p} text={:p}", &stack, &*heap, order as fn() -> String);
}

unsafe extern "C" {
    fn dlsym(handle: *mut core::ffi::c_void, symbol: *const core::ffi::c_char) -> *mut core::ffi::c_void;
}

unsafe fn libc_dlsym_present() -> bool {
    // RTLD_DEFAULT = NULL
    let p = unsafe { dlsym(core::ptr::null_mut(), c"verif_shim_calls".as_ptr()) };
    !p.is_null()
}
