//! E7 `e7_seedsim` — hash-seed and address-space seam (DESIGN.md §4 E7, §5 C42).
//!
//! Process-level engine: the parent generates DFIR programs from `VERIF_SEED`, runs the child
//! `compile_dump_dfir` under `LD_PRELOAD=shim.so` with several `VERIF_HASH_SEED`s and with ASLR on
//! and off, and compares the children's output bytes.  It reproduces the simcore runner's
//! contract itself (evidence, replay files, minimisation, fresh-process confirmation, known
//! findings, exit codes 0/1/2, determinism self-test).

mod progen;
mod hydro;
mod run;

use std::path::PathBuf;

pub struct Args {
    pub prop: String,
    pub tier: String,
    pub replay: Option<PathBuf>,
    pub runs: Option<u64>,
    pub threads: usize,
    pub seed: u64,
    pub gen_hash: Option<u64>,
    pub dump: Option<u64>,
    pub hash_seeds: Option<u64>,
    pub no_hydro: bool,
}

fn parse_args() -> Args {
    let mut a = Args {
        prop: String::new(),
        tier: std::env::var("VERIF_TIER").ok().filter(|s| !s.is_empty()).unwrap_or_else(|| "quick".into()),
        replay: None,
        runs: std::env::var("VERIF_RUNS").ok().and_then(|s| s.parse().ok()),
        threads: std::env::var("VERIF_THREADS").ok().and_then(|s| s.parse().ok()).unwrap_or(16),
        seed: std::env::var("VERIF_SEED").ok().and_then(|s| s.trim().parse().ok()).unwrap_or(1),
        gen_hash: None,
        dump: None,
        hash_seeds: None,
        no_hydro: std::env::var("VERIF_E7_NO_HYDRO").is_ok(),
    };
    let mut it = std::env::args().skip(1);
    while let Some(x) = it.next() {
        match x.as_str() {
            "--tier" => a.tier = it.next().unwrap_or_default(),
            "--replay" => a.replay = it.next().map(PathBuf::from),
            "--runs" => a.runs = it.next().and_then(|s| s.parse().ok()),
            "--threads" => a.threads = it.next().and_then(|s| s.parse().ok()).unwrap_or(16),
            "--seed" => a.seed = it.next().and_then(|s| s.parse().ok()).unwrap_or(1),
            "--gen-hash" => a.gen_hash = it.next().and_then(|s| s.parse().ok()),
            "--dump" => a.dump = it.next().and_then(|s| s.parse().ok()),
            "--hash-seeds" => a.hash_seeds = it.next().and_then(|s| s.parse().ok()),
            "--no-hydro" => a.no_hydro = true,
            s if !s.starts_with("--") && a.prop.is_empty() => a.prop = s.to_string(),
            s => {
                eprintln!("HARNESS: unknown argument {s}");
                std::process::exit(2);
            }
        }
    }
    if a.tier != "quick" && a.tier != "thorough" {
        eprintln!("HARNESS: bad tier {}", a.tier);
        std::process::exit(2);
    }
    a
}

fn main() {
    let args = parse_args();
    if args.prop != "C42" {
        eprintln!("HARNESS: engine e7_seedsim does not serve property '{}' (only C42)", args.prop);
        std::process::exit(2);
    }
    if let Some(n) = args.gen_hash {
        println!("GENHASH {:016x}", run::gen_hash(args.seed, n, args.threads));
        return;
    }
    if let Some(n) = args.dump {
        for (i, p) in run::gen_programs(args.seed, n, args.threads).iter().enumerate() {
            println!("@@@PROGRAM {i}\n{}", p.text);
        }
        return;
    }
    if let Some(path) = &args.replay {
        std::process::exit(run::do_replay(path));
    }
    std::process::exit(run::do_check(&args));
}
