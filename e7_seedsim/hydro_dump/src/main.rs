//! Child of the E7 hash-seed engine, Hydro leg: builds Hydro flows (public functions of
//! `/repo/hydro_test`) with the real `hydro_lang` compiler and prints canonical text:
//! the IR (`Debug`, shared nodes de-duplicated) and the production *embedded* code
//! (`generate_embedded`, one function per location: hydro IR -> DFIR -> `as_code`).
//!
//! usage: compile_dump_hydro --list | <flow name>... [--full] [--reps N]
//! Per flow one line: `H <name> ok ir=<len>:<h128> preview=.. embedded=.. inproc=<ok|DIFF:..>`
//! (`--full` adds `@@@BEGIN <name> <artefact>` .. `@@@END <name>` sections).

use hydro_lang::compile::builder::FlowBuilder;
use hydro_lang::location::Location;
use hydro_lang::prelude::*;

use hydro_lang::compile::deploy::DeployFlow;
use hydro_lang::compile::embedded::EmbeddedDeploy;

/// ir (Debug of the Hydro IR), preview (per location: DFIR mermaid, surface syntax, graph JSON,
/// generated tokens -- `preview_compile`, no networking), embedded (`generate_embedded`, only for
/// flows whose channels are named; empty otherwise).
type Arts = [String; 3];
type Flow = fn() -> Arts;
const NAMES: [&str; 3] = ["ir", "preview", "embedded"];

fn finish<'a>(ir: String, mut d: DeployFlow<'a, EmbeddedDeploy>, embeddable: bool) -> Arts {
    use std::fmt::Write as _;
    let mut preview = String::new();
    {
        let compiled = d.preview_compile();
        for (key, res) in compiled.all_dfir() {
            let _ = writeln!(preview, "=== location {key} ===");
            match res {
                Ok(g) => {
                    let _ = writeln!(preview, "--- mermaid\n{}", g.to_mermaid(&dfir_lang::graph::WriteConfig::default()));
                    let _ = writeln!(preview, "--- surface\n{}", g.surface_syntax_string());
                    let _ = writeln!(preview, "--- json\n{}", serde_json::to_string(g).unwrap_or_else(|e| format!("<serde error {e}>")));
                    let mut diags = dfir_lang::diagnostic::Diagnostics::new();
                    match g.as_code(&quote::quote! { __root_dfir_rs }, true, quote::quote!(), &mut diags) {
                        Ok(code) => {
                            let _ = writeln!(preview, "--- code\n{code}");
                        }
                        Err(_) => {
                            let _ = writeln!(preview, "--- code\n<as_code reported errors>");
                        }
                    }
                }
                Err(e) => {
                    let _ = writeln!(preview, "partition error: {}", e.diagnostic.message);
                }
            }
        }
    }
    let embedded = if embeddable { prettyplease::unparse(&d.generate_embedded("hydro_test")) } else { String::new() };
    [ir, preview, embedded]
}

fn ir_of(built: &hydro_lang::compile::built::BuiltFlow<'_>) -> String {
    let mut s = String::new();
    hydro_lang::compile::ir::dbg_dedup_tee(|| {
        s = format!("{:#?}", built.ir());
    });
    s
}

fn capitalize() -> Arts {
    let mut flow = FlowBuilder::new();
    let process = flow.process::<()>();
    hydro_test::local::capitalize::capitalize(process.embedded_input("input"));
    let built = flow.finalize();
    let ir = ir_of(&built);
    finish(ir, built.with_process(&process, "capitalize"), true)
}

fn prefix_names() -> Arts {
    let mut flow = FlowBuilder::new();
    let process = flow.process::<()>();
    hydro_test::local::singleton_input::prefix_names(process.embedded_input("names"), process.embedded_singleton_input("prefix"));
    let built = flow.finalize();
    let ir = ir_of(&built);
    finish(ir, built.with_process(&process, "prefix_names"), true)
}

fn echo_network() -> Arts {
    let mut flow = FlowBuilder::new();
    let sender = flow.process::<hydro_test::embedded::echo_network::Sender>();
    let receiver = flow.process::<hydro_test::embedded::echo_network::Receiver>();
    hydro_test::embedded::echo_network::echo_network(&receiver, sender.embedded_input("input")).embedded_output("output");
    let built = flow.finalize();
    let ir = ir_of(&built);
    finish(ir, built.with_process(&sender, "echo_sender").with_process(&receiver, "echo_receiver"), true)
}

fn echo_network_embedded() -> Arts {
    let mut flow = FlowBuilder::new();
    let sender = flow.process::<hydro_test::embedded::echo_network_embedded::Sender>();
    let receiver = flow.process::<hydro_test::embedded::echo_network_embedded::Receiver>();
    hydro_test::embedded::echo_network_embedded::echo_network_embedded(&receiver, sender.embedded_input("input")).embedded_output("output");
    let built = flow.finalize();
    let ir = ir_of(&built);
    finish(ir, built.with_process(&sender, "echo_sender").with_process(&receiver, "echo_receiver"), true)
}

fn o2m_broadcast() -> Arts {
    let mut flow = FlowBuilder::new();
    let process = flow.process::<hydro_test::embedded::o2m_broadcast::Src>();
    let cluster = flow.cluster::<hydro_test::embedded::o2m_broadcast::Dst>();
    hydro_test::embedded::o2m_broadcast::o2m_broadcast(&cluster, process.embedded_input("input"))
        .assume_ordering(nondet!(/** test */))
        .embedded_output("output");
    let built = flow.finalize();
    let ir = ir_of(&built);
    finish(ir, built.with_process(&process, "o2m_sender").with_cluster(&cluster, "o2m_receiver"), true)
}

fn m2o_send() -> Arts {
    let mut flow = FlowBuilder::new();
    let cluster = flow.cluster::<hydro_test::embedded::m2o_send::Src>();
    let process = flow.process::<hydro_test::embedded::m2o_send::Dst>();
    hydro_test::embedded::m2o_send::m2o_send(&process, cluster.embedded_input("input"))
        .assume_ordering(nondet!(/** test */))
        .embedded_output("output");
    let built = flow.finalize();
    let ir = ir_of(&built);
    finish(ir, built.with_cluster(&cluster, "m2o_sender").with_process(&process, "m2o_receiver"), true)
}

fn m2m_broadcast() -> Arts {
    let mut flow = FlowBuilder::new();
    let src = flow.cluster::<hydro_test::embedded::m2m_broadcast::Src>();
    let dst = flow.cluster::<hydro_test::embedded::m2m_broadcast::Dst>();
    hydro_test::embedded::m2m_broadcast::m2m_broadcast(&dst, src.embedded_input("input"))
        .assume_ordering(nondet!(/** test */))
        .embedded_output("output");
    let built = flow.finalize();
    let ir = ir_of(&built);
    finish(ir, built.with_cluster(&src, "m2m_sender").with_cluster(&dst, "m2m_receiver"), true)
}

fn simple_cluster() -> Arts {
    let mut flow = FlowBuilder::new();
    let (process, cluster) = hydro_test::cluster::simple_cluster::simple_cluster(&mut flow);
    let built = flow.finalize();
    let ir = ir_of(&built);
    finish(ir, built.with_process(&process, "sc_process").with_cluster(&cluster, "sc_cluster"), false)
}

fn decouple_cluster() -> Arts {
    let mut flow = FlowBuilder::new();
    let (c1, c2) = hydro_test::cluster::simple_cluster::decouple_cluster(&mut flow);
    let built = flow.finalize();
    let ir = ir_of(&built);
    finish(ir, built.with_cluster(&c1, "dc_one").with_cluster(&c2, "dc_two"), false)
}

fn decouple_process() -> Arts {
    let mut flow = FlowBuilder::new();
    let (p1, p2) = hydro_test::cluster::simple_cluster::decouple_process(&mut flow);
    let built = flow.finalize();
    let ir = ir_of(&built);
    finish(ir, built.with_process(&p1, "dp_one").with_process(&p2, "dp_two"), false)
}

fn many_to_many() -> Arts {
    let mut flow = FlowBuilder::new();
    let cluster = hydro_test::cluster::many_to_many::many_to_many(&mut flow);
    let built = flow.finalize();
    let ir = ir_of(&built);
    finish(ir, built.with_cluster(&cluster, "m2m"), true)
}

fn map_reduce() -> Arts {
    let mut flow = FlowBuilder::new();
    let (process, cluster) = hydro_test::cluster::map_reduce::map_reduce(&mut flow);
    let built = flow.finalize();
    let ir = ir_of(&built);
    finish(ir, built.with_process(&process, "mr_leader").with_cluster(&cluster, "mr_worker"), false)
}

fn compute_pi() -> Arts {
    let mut flow = FlowBuilder::new();
    let (cluster, process) = hydro_test::cluster::compute_pi::compute_pi(&mut flow, 8192);
    let built = flow.finalize();
    let ir = ir_of(&built);
    finish(ir, built.with_cluster(&cluster, "pi_worker").with_process(&process, "pi_leader"), false)
}

fn graph_reachability() -> Arts {
    let mut flow = FlowBuilder::new();
    let process = flow.process::<()>();
    hydro_test::local::graph_reachability::graph_reachability(process.embedded_input("roots"), process.embedded_input("edges"))
        .assume_ordering(nondet!(/** test */))
        .embedded_output("reached");
    let built = flow.finalize();
    let ir = ir_of(&built);
    finish(ir, built.with_process(&process, "reachability"), true)
}

fn count_elems() -> Arts {
    let mut flow = FlowBuilder::new();
    let process = flow.process::<()>();
    hydro_test::local::count_elems::count_elems::<u32>(process.embedded_input("input")).embedded_output("count");
    let built = flow.finalize();
    let ir = ir_of(&built);
    finish(ir, built.with_process(&process, "count_elems"), true)
}

fn chat_app(replay: bool) -> Arts {
    let mut flow = FlowBuilder::new();
    let process = flow.process::<()>();
    hydro_test::local::chat_app::chat_app(process.embedded_input("users"), process.embedded_input("messages"), replay, nondet!(/** test */))
        .assume_ordering(nondet!(/** test */))
        .embedded_output("out");
    let built = flow.finalize();
    let ir = ir_of(&built);
    finish(ir, built.with_process(&process, "chat_app"), true)
}
fn chat_app_replay() -> Arts {
    chat_app(true)
}
fn chat_app_noreplay() -> Arts {
    chat_app(false)
}

fn two_pc() -> Arts {
    use hydro_std::bench_client::pretty_print_bench_results;
    let mut flow = FlowBuilder::new();
    let coordinator = flow.process();
    let participants = flow.cluster();
    let clients = flow.cluster();
    let aggregator = flow.process();
    hydro_test::cluster::two_pc_bench::two_pc_bench(
        &coordinator,
        &participants,
        3,
        &clients,
        clients.singleton(q!(100usize)),
        &aggregator,
        100,
        1000,
        pretty_print_bench_results,
    );
    let built = flow.finalize();
    let ir = ir_of(&built);
    finish(
        ir,
        built
            .with_process(&coordinator, "tpc_coordinator")
            .with_cluster(&participants, "tpc_participant")
            .with_cluster(&clients, "tpc_client")
            .with_process(&aggregator, "tpc_aggregator"),
        false,
    )
}

fn paxos() -> Arts {
    use hydro_std::bench_client::pretty_print_bench_results;
    use hydro_test::cluster::paxos::{CorePaxos, PaxosConfig};
    let mut flow = FlowBuilder::new();
    let proposers = flow.cluster();
    let acceptors = flow.cluster();
    let clients = flow.cluster();
    let aggregator = flow.process();
    let replicas = flow.cluster();
    hydro_test::cluster::paxos_bench::paxos_bench(
        1000,
        1,
        2,
        CorePaxos {
            proposers: proposers.clone(),
            acceptors: acceptors.clone(),
            paxos_config: PaxosConfig { f: 1, i_am_leader_send_timeout: 5, i_am_leader_check_timeout: 10, i_am_leader_check_timeout_delay_multiplier: 15 },
        },
        &clients,
        clients.singleton(q!(100usize)),
        &aggregator,
        &replicas,
        100,
        1000,
        pretty_print_bench_results,
    );
    let built = flow.finalize();
    let ir = ir_of(&built);
    finish(
        ir,
        built
            .with_cluster(&proposers, "px_proposer")
            .with_cluster(&acceptors, "px_acceptor")
            .with_cluster(&clients, "px_client")
            .with_process(&aggregator, "px_aggregator")
            .with_cluster(&replicas, "px_replica"),
        false,
    )
}

const FLOWS: &[(&str, Flow)] = &[
    ("capitalize", capitalize),
    ("prefix_names", prefix_names),
    ("echo_network", echo_network),
    ("echo_network_embedded", echo_network_embedded),
    ("o2m_broadcast", o2m_broadcast),
    ("m2o_send", m2o_send),
    ("m2m_broadcast", m2m_broadcast),
    ("simple_cluster", simple_cluster),
    ("decouple_cluster", decouple_cluster),
    ("decouple_process", decouple_process),
    ("many_to_many", many_to_many),
    ("map_reduce", map_reduce),
    ("compute_pi", compute_pi),
    ("graph_reachability", graph_reachability),
    ("count_elems", count_elems),
    ("chat_app_replay", chat_app_replay),
    ("chat_app_noreplay", chat_app_noreplay),
    ("two_pc", two_pc),
    ("paxos", paxos),
];

fn h128(s: &str) -> String {
    let mut a = 0xcbf2_9ce4_8422_2325u64;
    let mut b = 0x6c62_272e_07bb_0142u64;
    for &x in s.as_bytes() {
        a = (a ^ x as u64).wrapping_mul(0x0000_0100_0000_01B3);
        b = (b.rotate_left(5) ^ x as u64).wrapping_mul(0x9E37_79B9_7F4A_7C15);
    }
    format!("{a:016x}{b:016x}")
}

unsafe extern "C" {
    fn dlsym(handle: *mut core::ffi::c_void, symbol: *const core::ffi::c_char) -> *mut core::ffi::c_void;
}

/// Rewind the shim's random stream (no-op without the shim), see compile_dump_dfir.
fn shim_reset() {
    unsafe {
        let p = dlsym(core::ptr::null_mut(), c"verif_shim_reset".as_ptr());
        if !p.is_null() {
            let f: extern "C" fn() = core::mem::transmute(p);
            f();
        }
    }
}

fn on_fresh_thread(f: Flow) -> Option<Arts> {
    std::thread::Builder::new().stack_size(256 << 20).spawn(move || std::panic::catch_unwind(f).ok()).ok()?.join().ok()?
}

fn main() {
    let args: Vec<String> = std::env::args().skip(1).collect();
    if args.first().map(|s| s.as_str()) == Some("--list") {
        for (n, _) in FLOWS {
            println!("{n}");
        }
        return;
    }
    let mut full = false;
    let mut reps = 1usize;
    let mut names = vec![];
    let mut it = args.iter();
    while let Some(a) = it.next() {
        match a.as_str() {
            "--full" => full = true,
            "--reps" => reps = it.next().and_then(|s| s.parse().ok()).unwrap_or(1),
            s => names.push(s.to_string()),
        }
    }
    let mut runs = 0u64;
    for name in names {
        let Some((_, f)) = FLOWS.iter().find(|(n, _)| *n == name) else {
            eprintln!("unknown flow {name}");
            std::process::exit(2);
        };
        shim_reset();
        let first = on_fresh_thread(*f);
        runs += 1;
        let Some(arts) = first else {
            println!("H {name} err ir=0:- preview=0:- embedded=0:- inproc=ok");
            continue;
        };
        let mut inproc = "ok".to_string();
        let mut other: Option<Arts> = None;
        for r in 0..reps {
            runs += 1;
            match on_fresh_thread(*f) {
                Some(a2) => {
                    if let Some(k) = (0..3).find(|&k| a2[k] != arts[k]) {
                        inproc = format!("DIFF:{}:{r}", NAMES[k]);
                        other = Some(a2);
                        break;
                    }
                }
                None => {
                    inproc = format!("DIFF:status:{r}");
                    break;
                }
            }
        }
        print!("H {name} ok");
        for k in 0..3 {
            print!(" {}={}:{}", NAMES[k], arts[k].len(), h128(&arts[k]));
        }
        println!(" inproc={inproc}");
        if full {
            for k in 0..3 {
                println!("@@@BEGIN {name} {}\n{}\n@@@END {name}", NAMES[k], arts[k]);
            }
            if let Some(o) = other {
                for k in 0..3 {
                    println!("@@@BEGIN {name} inproc-other-{}\n{}\n@@@END {name}", NAMES[k], o[k]);
                }
            }
        }
    }
    println!("PIPELINE_RUNS {runs}");
}
