#!/bin/bash
# /verif/e7_seedsim/run.sh C42 [--tier quick|thorough] [--replay <file>] [--runs N] [--seed S] [--no-hydro]
# Builds the hash-seed shim and the engine (offline, own target dir), then runs the check.
# exit 0 = held; 1 = VIOLATION reproduced from its replay file; 2 = harness/build error.
set -u
cd "$(dirname "$0")"
export CARGO_NET_OFFLINE=true
if ! ./build_shim.sh; then
  echo "HARNESS: building shim.so failed (this is a harness/build error, not a violation)" >&2; exit 2
fi
pkgs="-p e7_seedsim"
case " $* " in *" --no-hydro "*) ;; *) [ -z "${VERIF_E7_NO_HYDRO:-}" ] && pkgs="$pkgs -p compile_dump_hydro" ;; esac
log="$(mktemp /var/tmp/verif-build-e7-XXXXXX.log)"
if ! cargo build --release --offline $pkgs >"$log" 2>&1; then
  echo "HARNESS: build of e7_seedsim failed (this is a harness/build error, not a violation):" >&2
  tail -40 "$log" >&2; rm -f "$log"; exit 2
fi
rm -f "$log"
exec ./target/release/e7_seedsim "$@"
