/* e7_seedsim hash-seed seam (DESIGN.md §4 E7).
 *
 * LD_PRELOAD this object and every byte the process obtains through getrandom(2) -- the libc
 * wrapper `getrandom`, `getentropy`, and the raw `syscall(SYS_getrandom, ..)` route that some
 * crates use -- is served from a SplitMix64 stream keyed by the environment variable
 * VERIF_HASH_SEED (decimal or 0x-hex; default 0).  Rust's std resolves `getrandom` through a
 * weak/dlsym lookup (library/std/src/sys/random/linux.rs), so `RandomState` keys of every
 * std HashMap/HashSet (and slotmap::SparseSecondaryMap) become a pure function of the seed and
 * of the order in which threads first create a map.
 *
 * The stream is one global sequence protected by a spin lock: the n-th 8-byte word handed out
 * is SplitMix64(seed, n).  A process whose threads ask sequentially (one thread at a time)
 * therefore sees a reproducible key sequence.
 *
 * Build: gcc -O2 -fPIC -shared -o shim.so shim.c -ldl
 * If VERIF_HASH_TRACE is set, each call is reported on stderr ("verif-shim: getrandom n=16").
 */
#define _GNU_SOURCE
#include <dlfcn.h>
#include <errno.h>
#include <stdarg.h>
#include <stdint.h>
#include <stdio.h>
#include <stdlib.h>
#include <string.h>
#include <sys/syscall.h>
#include <sys/types.h>
#include <unistd.h>

static volatile int lock_;
static int init_;
static uint64_t state_;
static int trace_;
static unsigned long calls_;

static void lock(void) { while (__sync_lock_test_and_set(&lock_, 1)) { } }
static void unlock(void) { __sync_lock_release(&lock_); }

static uint64_t next64(void) {
    state_ += 0x9E3779B97F4A7C15ull;
    uint64_t z = state_;
    z = (z ^ (z >> 30)) * 0xBF58476D1CE4E5B9ull;
    z = (z ^ (z >> 27)) * 0x94D049BB133111EBull;
    return z ^ (z >> 31);
}

static void init_locked(void) {
    if (init_) return;
    const char *s = getenv("VERIF_HASH_SEED");
    uint64_t seed = s ? strtoull(s, NULL, 0) : 0;
    /* decorrelate neighbouring seeds */
    state_ = seed * 0xD6E8FEB86659FD93ull + 0x2545F4914F6CDD1Dull;
    trace_ = getenv("VERIF_HASH_TRACE") != NULL;
    init_ = 1;
}

static ssize_t fill(void *buf, size_t n, const char *via) {
    unsigned char *p = (unsigned char *)buf;
    size_t left = n;
    lock();
    init_locked();
    calls_++;
    while (left > 0) {
        uint64_t w = next64();
        size_t k = left < 8 ? left : 8;
        memcpy(p, &w, k);
        p += k;
        left -= k;
    }
    int tr = trace_;
    unlock();
    if (tr) {
        char line[96];
        int m = snprintf(line, sizeof line, "verif-shim: %s n=%zu\n", via, n);
        if (m > 0) { ssize_t r = write(2, line, (size_t)m); (void)r; }
    }
    return (ssize_t)n;
}

ssize_t getrandom(void *buf, size_t buflen, unsigned int flags) {
    (void)flags;
    if (buf == NULL && buflen > 0) { errno = EFAULT; return -1; }
    return fill(buf, buflen, "getrandom");
}

int getentropy(void *buf, size_t buflen) {
    if (buflen > 256) { errno = EIO; return -1; }
    fill(buf, buflen, "getentropy");
    return 0;
}

/* Raw-syscall route: forward everything except SYS_getrandom to the real syscall(2) wrapper. */
long syscall(long number, ...) {
    va_list ap;
    va_start(ap, number);
    long a0 = va_arg(ap, long), a1 = va_arg(ap, long), a2 = va_arg(ap, long);
    long a3 = va_arg(ap, long), a4 = va_arg(ap, long), a5 = va_arg(ap, long);
    va_end(ap);
    if (number == SYS_getrandom) {
        if ((void *)a0 == NULL && a1 > 0) { errno = EFAULT; return -1; }
        return (long)fill((void *)a0, (size_t)a1, "syscall(SYS_getrandom)");
    }
    static long (*real)(long, ...);
    if (!real) real = (long (*)(long, ...))dlsym(RTLD_NEXT, "syscall");
    return real(number, a0, a1, a2, a3, a4, a5);
}

/* Rewind the stream to its initial state (the one derived from VERIF_HASH_SEED).  The compile
 * children call this before each program, so that the keys a program's compilation sees depend
 * on (seed, program) only and not on its position in a batch -- which makes a replay of the
 * single program exact. */
void verif_shim_reset(void) {
    lock();
    init_ = 0;
    init_locked();
    unlock();
}

/* Lets a child prove that the shim is really loaded (control probe). */
unsigned long verif_shim_calls(void) {
    lock();
    unsigned long c = calls_;
    unlock();
    return c;
}
